package core

import (
	"fmt"
	"go/constant"
	"go/token"
	"go/types"
	"os"
	"sort"
	"strings"
	"sync"

	"golang.org/x/tools/go/ssa"
)

// Fact is a must-fact of engine E2.
//
//	ok(c)      call c returned a nil error
//	fail(c)    call c returned a non-nil error
//	true(t)    boolean term t is true;  false(t) its negation
//	cmp        A Op B   (Op in == != < <= > >=), operands normalised
//	hit/miss   comma-ok map lookup A[B] found / not found
//	istype     comma-ok type assertion succeeded (A = typeassert term); nottype
//	okany      one of the calls in List returned a nil error (phi of errors)
//	called     call A has been executed
//	stored     value B has been stored to address A
type Fact struct {
	Kind string
	Op   string
	A, B *Term
	List []*Term
	key  string
}

// Key is the canonical string of the fact.
func (f *Fact) Key() string {
	if f.key != "" {
		return f.key
	}
	var s string
	switch f.Kind {
	case "cmp":
		s = "cmp(" + f.A.String() + " " + f.Op + " " + f.B.String() + ")"
	case "hit", "miss", "stored":
		s = f.Kind + "(" + f.A.String() + ", " + f.B.String() + ")"
	case "okany":
		var l []string
		for _, t := range f.List {
			l = append(l, t.String())
		}
		s = "okany(" + strings.Join(l, " | ") + ")"
	default:
		s = f.Kind + "(" + f.A.String() + ")"
	}
	f.key = s
	return s
}

func (f Fact) String() string { return f.Key() }

// Subst instantiates a callee fact at a call site.
func (f Fact) Subst(actual []*Term) Fact {
	n := Fact{Kind: f.Kind, Op: f.Op}
	if f.A != nil {
		n.A = f.A.Subst(actual)
	}
	if f.B != nil {
		n.B = f.B.Subst(actual)
	}
	for _, t := range f.List {
		n.List = append(n.List, t.Subst(actual))
	}
	if n.Kind == "cmp" {
		n = normCmp(n.A, n.Op, n.B)
	}
	return n
}

// FactSet is a set of facts; nil means TOP (unreachable: every fact holds).
type FactSet map[string]Fact

func (s FactSet) Clone() FactSet { return s.clone() }

func (s FactSet) clone() FactSet {
	n := make(FactSet, len(s))
	for k, v := range s {
		n[k] = v
	}
	return n
}

func (s FactSet) add(f Fact) { s[f.Key()] = f }

// Has reports whether a fact with the given key is present.
func (s FactSet) Has(key string) bool { _, ok := s[key]; return ok }

// Sorted returns the facts sorted by key.
func (s FactSet) Sorted() []Fact {
	out := make([]Fact, 0, len(s))
	for _, f := range s {
		out = append(out, f)
	}
	sort.Slice(out, func(i, j int) bool { return out[i].Key() < out[j].Key() })
	return out
}

// Find returns the facts satisfying pred, sorted.
func (s FactSet) Find(pred func(Fact) bool) []Fact {
	var out []Fact
	for _, f := range s.Sorted() {
		if pred(f) {
			out = append(out, f)
		}
	}
	return out
}

func intersect(a, b FactSet) FactSet {
	if a == nil {
		return b.clone()
	}
	if b == nil {
		return a
	}
	for k := range a {
		if _, ok := b[k]; !ok {
			delete(a, k)
		}
	}
	return a
}

var negOp = map[string]string{"==": "!=", "!=": "==", "<": ">=", ">=": "<", ">": "<=", "<=": ">"}
var flipOp = map[string]string{"==": "==", "!=": "!=", "<": ">", ">": "<", "<=": ">=", ">=": "<="}

func normCmp(a *Term, op string, b *Term) Fact {
	// (x - y) == 0 is x == y, also under wrap-around (not so for the order relations)
	if (op == "==" || op == "!=") && a.Op == "bin" && a.Name == "-" && len(a.Args) == 2 && b.Op == "const" && b.Name == "0" {
		return normCmp(a.Args[0], op, a.Args[1])
	}
	if (op == "==" || op == "!=") && b.Op == "bin" && b.Name == "-" && len(b.Args) == 2 && a.Op == "const" && a.Name == "0" {
		return normCmp(b.Args[0], op, b.Args[1])
	}
	swap := false
	switch {
	case a.Op == "const" && b.Op != "const":
		swap = true
	case a.Op != "const" && b.Op == "const":
	default:
		swap = a.String() > b.String()
	}
	if swap {
		a, b = b, a
		op = flipOp[op]
	}
	return Fact{Kind: "cmp", Op: op, A: a, B: b}
}

// Ctx is an analysis context: assumptions under which a function is analysed.
type Ctx struct {
	// ParamBool fixes boolean parameters (by index in fn.Params).
	ParamBool map[int]bool
}

func (c Ctx) key() string {
	if len(c.ParamBool) == 0 {
		return ""
	}
	var ks []int
	for k := range c.ParamBool {
		ks = append(ks, k)
	}
	sort.Ints(ks)
	var sb strings.Builder
	for _, k := range ks {
		if c.ParamBool[k] {
			sb.WriteString("|" + itoa(k) + "=T")
		} else {
			sb.WriteString("|" + itoa(k) + "=F")
		}
	}
	return sb.String()
}

func itoa(i int) string {
	if i == 0 {
		return "0"
	}
	neg := i < 0
	if neg {
		i = -i
	}
	var b []byte
	for i > 0 {
		b = append([]byte{byte('0' + i%10)}, b...)
		i /= 10
	}
	if neg {
		b = append([]byte{'-'}, b...)
	}
	return string(b)
}

// FnFacts is the result of the must-fact dataflow for one function/context.
type FnFacts struct {
	Fn   *ssa.Function
	Ctx  Ctx
	TB   *TermBuilder
	In   map[*ssa.BasicBlock]FactSet
	Live map[*ssa.BasicBlock]bool
	eng  *Engine
	edge map[[2]*ssa.BasicBlock][]Fact
	dead map[[2]*ssa.BasicBlock]bool
	// phi threading: a block that ends in a test of one of its own phis lets through, on each outgoing edge, only the
	// facts of the incoming edges whose phi operand is compatible with the outcome of the test
	tests    map[*ssa.BasicBlock]*phiTest
	edgeOut  map[[2]*ssa.BasicBlock]FactSet // facts at the end of an edge (previous iteration)
	feasible map[[2]*ssa.BasicBlock][][]int // per outgoing edge of a test block: the compatible ways in (predecessor index chains)
	resolved map[*ssa.Phi]ssa.Value
	curEdge  [2]*ssa.BasicBlock
	curExtra []Fact
}

// phiTest: the block's If tests a phi against nil, a constant or a boolean outcome. The phi belongs to the block
// itself or to a join above it from which the block is reached through single-predecessor blocks only (chain).
type phiTest struct {
	phi    *ssa.Phi
	isBool bool // the phi itself is the (possibly negated) condition
	// nil / constant tests: the true edge means "phi != k" when neqOnTrue
	neqOnTrue bool
	k         *ssa.Const // nil: test against nil
	// ord: an ordered comparison `phi ord k` (k an integer constant); the true edge means it holds when neqOnTrue
	ord   token.Token
	chain []*ssa.BasicBlock // join block ... test block
}

// opFor: the comparison operator that holds between the tested value and k on the edge with the given truth.
func (pt *phiTest) opFor(truth bool) string {
	holds := truth == pt.neqOnTrue
	if pt.ord == 0 {
		if holds {
			return "!="
		}
		return "=="
	}
	op := pt.ord
	if !holds {
		switch op {
		case token.LSS:
			op = token.GEQ
		case token.LEQ:
			op = token.GTR
		case token.GTR:
			op = token.LEQ
		case token.GEQ:
			op = token.LSS
		}
	}
	return op.String()
}

// rangeIndex: v is the index of a range loop over a slice (φ(-1, v) + 1): never negative.
func rangeIndex(v ssa.Value) bool {
	b, ok := v.(*ssa.BinOp)
	if !ok || b.Op != token.ADD {
		return false
	}
	one, ok := b.Y.(*ssa.Const)
	if !ok || one.Value == nil || one.Value.ExactString() != "1" {
		return false
	}
	phi, ok := b.X.(*ssa.Phi)
	if !ok || len(phi.Edges) != 2 {
		return false
	}
	hasInit, hasSelf := false, false
	for _, e := range phi.Edges {
		if c, isC := e.(*ssa.Const); isC && c.Value != nil && c.Value.ExactString() == "-1" {
			hasInit = true
		}
		if e == ssa.Value(b) {
			hasSelf = true
		}
	}
	return hasInit && hasSelf
}

// ordHolds decides `v ord k` for an operand that is a constant or a range index; known=false otherwise.
func ordHolds(v ssa.Value, ord token.Token, k *ssa.Const) (holds, known bool) {
	if k == nil || k.Value == nil || k.Value.Kind() != constant.Int {
		return false, false
	}
	if c, ok := v.(*ssa.Const); ok && c.Value != nil && c.Value.Kind() == constant.Int {
		return constant.Compare(c.Value, ord, k.Value), true
	}
	if rangeIndex(v) {
		// v ≥ 0
		sign := constant.Sign(k.Value)
		switch ord {
		case token.GEQ:
			if sign <= 0 {
				return true, true
			}
		case token.GTR:
			if sign < 0 {
				return true, true
			}
		case token.LSS:
			if sign <= 0 {
				return false, true
			}
		case token.LEQ:
			if sign < 0 {
				return false, true
			}
		case token.EQL:
			if sign < 0 {
				return false, true
			}
		case token.NEQ:
			if sign < 0 {
				return true, true
			}
		}
	}
	return false, false
}

// Summary is the success summary of a function.
type Summary struct {
	Facts      FactSet
	HasSuccess bool
	Successes  int
}

// Engine caches per-function facts and summaries.
type Engine struct {
	P        *Prog
	facts    map[string]*FnFacts
	sums     map[string]*Summary
	busy     map[string]bool
	NonNil   func(fn *ssa.Function) bool // extra non-nil error constructors
	Analysed map[*ssa.Function]bool
}

// NewEngine returns an engine for p.
var (
	engMu   sync.Mutex
	engines = map[*ssa.Program]*Engine{}
)

// ResolvedPhi: the operand a phi is known to equal at all of its uses (nil: not known), looked up through the engine
// of the phi's program (the facts of its function are computed on demand).
func ResolvedPhi(p *ssa.Phi) ssa.Value {
	if p == nil || p.Parent() == nil {
		return nil
	}
	engMu.Lock()
	e := engines[p.Parent().Prog]
	engMu.Unlock()
	if e == nil {
		return nil
	}
	ff := e.Facts(p.Parent(), Ctx{})
	return ff.resolved[p]
}

func NewEngine(p *Prog) *Engine {
	e := newEngine(p)
	engMu.Lock()
	engines[p.SSA] = e
	engMu.Unlock()
	return e
}

func newEngine(p *Prog) *Engine {
	return &Engine{P: p, facts: map[string]*FnFacts{}, sums: map[string]*Summary{}, busy: map[string]bool{}, Analysed: map[*ssa.Function]bool{}}
}

func fkey(fn *ssa.Function, c Ctx) string { return fn.String() + c.key() }

// Facts runs (or returns the cached) dataflow for fn under ctx.
func (e *Engine) Facts(fn *ssa.Function, ctx Ctx) *FnFacts {
	k := fkey(fn, ctx)
	if ff, ok := e.facts[k]; ok {
		return ff
	}
	ff := &FnFacts{Fn: fn, Ctx: ctx, eng: e, TB: NewTermBuilder(e.P, fn),
		In: map[*ssa.BasicBlock]FactSet{}, Live: map[*ssa.BasicBlock]bool{},
		edge: map[[2]*ssa.BasicBlock][]Fact{}, dead: map[[2]*ssa.BasicBlock]bool{}}
	e.facts[k] = ff
	e.Analysed[fn] = true
	ff.run()
	return ff
}

func (ff *FnFacts) paramConst(v ssa.Value) (bool, bool) {
	if p, ok := v.(*ssa.Parameter); ok {
		for i, q := range ff.Fn.Params {
			if q == p {
				b, ok := ff.Ctx.ParamBool[i]
				return b, ok
			}
		}
	}
	if c, ok := v.(*ssa.Const); ok && c.Value != nil {
		if bt, isB := c.Type().Underlying().(*types.Basic); isB && bt.Info()&types.IsBoolean != 0 {
			return c.Value.String() == "true", true
		}
	}
	if u, ok := v.(*ssa.UnOp); ok && u.Op == token.NOT {
		if b, ok := ff.paramConst(u.X); ok {
			return !b, true
		}
	}
	return false, false
}

func (ff *FnFacts) run() {
	fn := ff.Fn
	if len(fn.Blocks) == 0 {
		return
	}
	// Phase 1: liveness under constant conditions.
	ff.TB.LiveEdge = func(from, to *ssa.BasicBlock) bool {
		return ff.Live[from] && !ff.dead[[2]*ssa.BasicBlock{from, to}]
	}
	for _, b := range fn.Blocks {
		if iff, ok := b.Instrs[len(b.Instrs)-1].(*ssa.If); ok {
			if cv, known := ff.paramConst(iff.Cond); known {
				if cv {
					ff.dead[[2]*ssa.BasicBlock{b, b.Succs[1]}] = true
				} else {
					ff.dead[[2]*ssa.BasicBlock{b, b.Succs[0]}] = true
				}
			}
		}
	}
	ff.Live[fn.Blocks[0]] = true
	work := []*ssa.BasicBlock{fn.Blocks[0]}
	for len(work) > 0 {
		b := work[len(work)-1]
		work = work[:len(work)-1]
		for _, s := range b.Succs {
			if ff.dead[[2]*ssa.BasicBlock{b, s}] || ff.Live[s] {
				continue
			}
			ff.Live[s] = true
			work = append(work, s)
		}
	}
	ff.dataflow()
	// phis whose value is decided by such a test at every use are given the term of that operand, and the facts
	// are recomputed with those terms
	if res := ff.resolvePhis(); len(res) > 0 {
		ff.resolved = res
		tb := NewTermBuilder(ff.TB.P, fn)
		tb.LiveEdge = ff.TB.LiveEdge
		tb.PhiResolve = func(p *ssa.Phi) ssa.Value { return ff.resolved[p] }
		ff.TB = tb
		ff.In = map[*ssa.BasicBlock]FactSet{}
		ff.edge = map[[2]*ssa.BasicBlock][]Fact{}
		ff.dataflow()
	}
}

// chainFrom: the blocks from join down to b when b is reached from join only, through single-predecessor blocks.
func chainFrom(join, b *ssa.BasicBlock) []*ssa.BasicBlock {
	chain := []*ssa.BasicBlock{b}
	for cur := b; cur != join; {
		if len(cur.Preds) != 1 || len(chain) > 6 {
			return nil
		}
		cur = cur.Preds[0]
		chain = append([]*ssa.BasicBlock{cur}, chain...)
	}
	return chain
}

// forwardLoad: a load of a local variable that was stored just before in the same block (no call in between, which
// could run a closure writing it) is the stored value — `err = merged; if err != nil` on a captured named result.
func forwardLoad(v ssa.Value) ssa.Value {
	u, ok := v.(*ssa.UnOp)
	if !ok || u.Op != token.MUL {
		return v
	}
	al, ok := u.X.(*ssa.Alloc)
	if !ok || u.Block() == nil {
		return v
	}
	instrs := u.Block().Instrs
	pos := -1
	for i, ins := range instrs {
		if ins == ssa.Instruction(u) {
			pos = i
		}
	}
	for i := pos - 1; i >= 0; i-- {
		switch y := instrs[i].(type) {
		case *ssa.Store:
			if y.Addr == ssa.Value(al) {
				return y.Val
			}
		case ssa.CallInstruction:
			return v
		}
	}
	return v
}

// findTest recognises `if phi != nil`, `if phi == k`, `if phi`, `if !phi` (and their negations).
func findTest(b *ssa.BasicBlock) *phiTest {
	iff, ok := b.Instrs[len(b.Instrs)-1].(*ssa.If)
	if !ok {
		return nil
	}
	cond := iff.Cond
	neg := false
	for {
		if u, isU := cond.(*ssa.UnOp); isU && u.Op == token.NOT {
			neg = !neg
			cond = u.X
			continue
		}
		break
	}
	mk := func(phi *ssa.Phi, pt *phiTest) *phiTest {
		if phi.Block() == nil {
			return nil
		}
		pt.phi = phi
		pt.chain = chainFrom(phi.Block(), b)
		if pt.chain == nil {
			return nil
		}
		return pt
	}
	if phi, isPhi := forwardLoad(cond).(*ssa.Phi); isPhi {
		return mk(phi, &phiTest{isBool: true, neqOnTrue: !neg})
	}
	if bo, isB := cond.(*ssa.BinOp); isB && (bo.Op == token.LSS || bo.Op == token.LEQ || bo.Op == token.GTR || bo.Op == token.GEQ) {
		// `i >= 0` on the merged result of an "index or -1" search
		op := bo.Op
		var other ssa.Value
		var k *ssa.Const
		if c, isC := bo.Y.(*ssa.Const); isC {
			other, k = bo.X, c
		} else if c, isC := bo.X.(*ssa.Const); isC {
			other, k = bo.Y, c
			switch op {
			case token.LSS:
				op = token.GTR
			case token.LEQ:
				op = token.GEQ
			case token.GTR:
				op = token.LSS
			case token.GEQ:
				op = token.LEQ
			}
		}
		if k != nil && k.Value != nil && k.Value.Kind() == constant.Int {
			if phi, isPhi := forwardLoad(other).(*ssa.Phi); isPhi {
				return mk(phi, &phiTest{neqOnTrue: !neg, k: k, ord: op})
			}
		}
		return nil
	}
	if bo, isB := cond.(*ssa.BinOp); isB && (bo.Op == token.EQL || bo.Op == token.NEQ) {
		var other ssa.Value
		var k *ssa.Const
		if c, isC := bo.Y.(*ssa.Const); isC {
			other, k = bo.X, c
		} else if c, isC := bo.X.(*ssa.Const); isC {
			other, k = bo.Y, c
		}
		other = forwardLoad(other)
		if phi, isPhi := other.(*ssa.Phi); isPhi {
			if k.Value == nil {
				k = nil
			}
			return mk(phi, &phiTest{neqOnTrue: (bo.Op == token.NEQ) != neg, k: k})
		}
	}
	return nil
}

// compatible: can operand v (facts: those at the end of its incoming edge) make the test come out as `truth`?
func (ff *FnFacts) compatible(pt *phiTest, v ssa.Value, truth bool, facts FactSet) bool {
	if pt.isBool {
		want := truth == pt.neqOnTrue // value the phi must have
		if c, ok := v.(*ssa.Const); ok && c.Value != nil {
			return (c.Value.String() == "true") == want
		}
		t := ff.TB.Of(v)
		if facts.Has((&Fact{Kind: "true", A: t}).Key()) {
			return want
		}
		if facts.Has((&Fact{Kind: "false", A: t}).Key()) {
			return !want
		}
		return true
	}
	if pt.ord != 0 {
		want := truth == pt.neqOnTrue
		if holds, known := ordHolds(v, pt.ord, pt.k); known {
			return holds == want
		}
		return true
	}
	if pt.k != nil {
		wantNeq := truth == pt.neqOnTrue
		if holds, known := ordHolds(v, token.NEQ, pt.k); known {
			if _, isC := v.(*ssa.Const); !isC {
				return holds == wantNeq
			}
		}
		if c, ok := v.(*ssa.Const); ok && c.Value != nil {
			return (c.Value.ExactString() != pt.k.Value.ExactString()) == wantNeq
		}
		t := ff.TB.Of(v)
		kt := ff.TB.Of(pt.k)
		eq, ne := normCmp(t, "==", kt), normCmp(t, "!=", kt)
		if facts.Has(eq.Key()) {
			return !wantNeq
		}
		if facts.Has(ne.Key()) {
			return wantNeq
		}
		return true
	}
	wantNonNil := truth == pt.neqOnTrue
	if isNilConst(v) {
		return !wantNonNil
	}
	t := ff.TB.Of(v)
	nilT := &Term{Op: "const", Name: "nil"}
	if isErrorType(v.Type()) {
		possible, _ := ff.nilErr(v, facts)
		if !possible {
			return wantNonNil
		}
		if ct := ff.callOfErr(v); ct != nil && facts.Has((&Fact{Kind: "ok", A: ct}).Key()) {
			return !wantNonNil
		}
	} else {
		switch v.(type) {
		case *ssa.Alloc, *ssa.MakeInterface, *ssa.MakeMap, *ssa.MakeSlice, *ssa.MakeClosure, *ssa.MakeChan:
			return wantNonNil
		}
	}
	if facts.Has((&Fact{Kind: "cmp", Op: "!=", A: t, B: nilT}).Key()) {
		return wantNonNil
	}
	if facts.Has((&Fact{Kind: "cmp", Op: "==", A: t, B: nilT}).Key()) {
		return !wantNonNil
	}
	return true
}

// incoming is one way control can arrive at a test block: the operand the tested phi then has (phis of pass-through
// predecessor blocks are expanded), the facts at the end of that way, and the predecessor indexes followed.
type incoming struct {
	val   ssa.Value
	judge FactSet // facts where the operand enters (an SSA value does not change afterwards)
	facts FactSet // facts on arrival at the test block
	idx   []int
}

func (ff *FnFacts) liveSuccs(b *ssa.BasicBlock) []*ssa.BasicBlock {
	var out []*ssa.BasicBlock
	for _, s := range b.Succs {
		if !ff.dead[[2]*ssa.BasicBlock{b, s}] {
			out = append(out, s)
		}
	}
	return out
}

func (ff *FnFacts) incomings(p *ssa.BasicBlock, phi *ssa.Phi, depth int) []incoming {
	var out []incoming
	for i, q := range p.Preds {
		if !ff.Live[q] || ff.dead[[2]*ssa.BasicBlock{q, p}] {
			continue
		}
		eo, ok := ff.edgeOut[[2]*ssa.BasicBlock{q, p}]
		if !ok {
			continue // TOP
		}
		v := phi.Edges[i]
		if vp, isPhi := v.(*ssa.Phi); isPhi && vp.Block() == q && depth > 0 && ff.tests[q] == nil {
			if ls := ff.liveSuccs(q); len(ls) == 1 && ls[0] == p {
				subs := ff.incomings(q, vp, depth-1)
				for _, sb := range subs {
					f := ff.outOf(q, sb.facts)
					for _, ef := range ff.edge[[2]*ssa.BasicBlock{q, p}] {
						f.add(ef)
					}
					out = append(out, incoming{val: sb.val, judge: sb.judge, facts: f, idx: append([]int{i}, sb.idx...)})
				}
				continue
			}
		}
		out = append(out, incoming{val: v, judge: eo, facts: eo, idx: []int{i}})
	}
	return out
}

// outToward: the facts at the end of block p when control leaves it toward s.
func (ff *FnFacts) outToward(p, s *ssa.BasicBlock, pin FactSet) FactSet {
	base := pin
	var extra []Fact
	var only ssa.Value
	if pt := ff.tests[p]; pt != nil && len(p.Succs) == 2 && p.Succs[0] != p.Succs[1] {
		truth := s == p.Succs[0]
		var acc FactSet
		first := true
		var feas [][]int
		join := pt.chain[0]
		for _, in := range ff.incomings(join, pt.phi, 3) {
			if !ff.compatible(pt, in.val, truth, in.judge) {
				continue
			}
			feas = append(feas, in.idx)
			only = in.val
			// carry the facts of this way in down the chain to the test block
			f := in.facts
			for i := 0; i+1 < len(pt.chain); i++ {
				f = ff.outOf(pt.chain[i], f)
				for _, ef := range ff.edge[[2]*ssa.BasicBlock{pt.chain[i], pt.chain[i+1]}] {
					f.add(ef)
				}
			}
			if first {
				acc = f.clone()
				first = false
			} else {
				acc = intersect(acc, f)
			}
		}
		ff.feasible[[2]*ssa.BasicBlock{p, s}] = feas
		if !first {
			base = acc
			for k, f := range pin {
				base[k] = f
			}
		}
		if len(feas) == 1 && only != nil {
			// the test's outcome, said of the one operand that can produce it
			switch {
			case pt.isBool:
				extra = ff.condFacts(only, truth == pt.neqOnTrue, p)
			case pt.k != nil:
				extra = []Fact{normCmp(ff.TB.Of(only), pt.opFor(truth), ff.TB.Of(pt.k))}
			case isErrorType(only.Type()):
				extra = ff.errFacts(only, truth != pt.neqOnTrue)
			default:
				op := "=="
				if truth == pt.neqOnTrue {
					op = "!="
				}
				extra = []Fact{{Kind: "cmp", Op: op, A: ff.TB.Of(only), B: &Term{Op: "const", Name: "nil"}}}
			}
		}
	}
	out := ff.outOf(p, base)
	for _, f := range ff.edge[[2]*ssa.BasicBlock{p, s}] {
		out.add(f)
	}
	for _, f := range extra {
		out.add(f)
	}
	return out
}

// WalkFeasible explores the blocks reachable from the last block of prefix along live edges that skip does not veto
// and that the way of arrival allows (see PathFeasible); it returns true as soon as hit accepts a block.
func (ff *FnFacts) WalkFeasible(prefix []*ssa.BasicBlock, skip func(a, b *ssa.BasicBlock) bool, hit func(b *ssa.BasicBlock) bool) bool {
	var sp func(path []*ssa.BasicBlock, next *ssa.BasicBlock) bool
	if skip != nil {
		sp = func(path []*ssa.BasicBlock, next *ssa.BasicBlock) bool { return skip(path[len(path)-1], next) }
	}
	return ff.WalkFeasiblePath(prefix, sp, hit)
}

// WalkFeasiblePath is WalkFeasible with a veto that sees the way of arrival.
func (ff *FnFacts) WalkFeasiblePath(prefix []*ssa.BasicBlock, skip func(path []*ssa.BasicBlock, next *ssa.BasicBlock) bool, hit func(b *ssa.BasicBlock) bool) bool {
	seen := map[[3]*ssa.BasicBlock]bool{}
	var dfs func(path []*ssa.BasicBlock) bool
	dfs = func(path []*ssa.BasicBlock) bool {
		x := path[len(path)-1]
		for _, s := range x.Succs {
			if !ff.IsLiveEdge(x, s) || !ff.PathFeasible(path, s) {
				continue
			}
			if skip != nil {
				ff.curEdge, ff.curExtra = [2]*ssa.BasicBlock{x, s}, ff.PathTestFacts(path, s)
				vetoed := skip(path, s)
				ff.curExtra = nil
				if vetoed {
					continue
				}
			}
			if hit(s) {
				return true
			}
			k := [3]*ssa.BasicBlock{s, x, nil}
			if len(path) >= 2 {
				k[2] = path[len(path)-2]
			}
			if seen[k] {
				continue
			}
			seen[k] = true
			if dfs(append(path[:len(path):len(path)], s)) {
				return true
			}
		}
		return false
	}
	return dfs(prefix)
}

func predIndex(b, pred *ssa.BasicBlock) int {
	for i, q := range b.Preds {
		if q == pred {
			return i
		}
	}
	return -1
}

// pathOperand: the operand the phi tested at the end of path has when control arrived along path, and the facts at
// the edge where that operand entered (ok=false: the path does not determine it).
func (ff *FnFacts) pathOperand(path []*ssa.BasicBlock) (pt *phiTest, v ssa.Value, facts FactSet, ok bool) {
	if len(path) < 2 {
		return nil, nil, nil, false
	}
	p := path[len(path)-1]
	pt = ff.tests[p]
	if pt == nil || len(p.Succs) != 2 || p.Succs[0] == p.Succs[1] {
		return nil, nil, nil, false
	}
	// the path must end with the chain join ... test block
	k := len(path) - len(pt.chain)
	if k < 1 {
		return nil, nil, nil, false
	}
	for i, cb := range pt.chain {
		if path[k+i] != cb {
			return nil, nil, nil, false
		}
	}
	join := pt.chain[0]
	q := path[k-1]
	k--
	i := predIndex(join, q)
	if i < 0 {
		return nil, nil, nil, false
	}
	v = pt.phi.Edges[i]
	enter := [2]*ssa.BasicBlock{q, join}
	for k > 0 {
		vp, isPhi := v.(*ssa.Phi)
		if !isPhi || vp.Block() != q {
			break
		}
		r := path[k-1]
		j := predIndex(q, r)
		if j < 0 {
			break
		}
		v = vp.Edges[j]
		enter = [2]*ssa.BasicBlock{r, q}
		q = r
		k--
	}
	facts = ff.edgeOut[enter]
	if facts == nil {
		facts = FactSet{}
	}
	return pt, v, facts, true
}

// PathFeasible: can control, having run through path, continue to next? False only when the last block of the path
// tests a phi and the operand selected by the path cannot make the test come out that way.
func (ff *FnFacts) PathFeasible(path []*ssa.BasicBlock, next *ssa.BasicBlock) bool {
	if ff.contradictsPath(path, next) {
		return false
	}
	pt, v, facts, ok := ff.pathOperand(path)
	if !ok {
		return true
	}
	p := path[len(path)-1]
	return ff.compatible(pt, v, next == p.Succs[0], facts)
}

// contradictsPath: the edge to next asserts true(t) / false(t) for a term over parameters and constants only (so its
// value cannot have changed) of which an earlier edge of the path asserted the opposite — `if !batch {…}` followed
// later by `if !batch && …`.
func (ff *FnFacts) contradictsPath(path []*ssa.BasicBlock, next *ssa.BasicBlock) bool {
	if len(path) < 2 {
		return false
	}
	last := path[len(path)-1]
	var cur []Fact
	for _, f := range ff.edge[[2]*ssa.BasicBlock{last, next}] {
		if (f.Kind == "true" || f.Kind == "false") && f.A != nil && stableTerm(f.A) {
			cur = append(cur, f)
		}
	}
	if len(cur) == 0 {
		return false
	}
	for i := 0; i+1 < len(path); i++ {
		for _, f := range ff.edge[[2]*ssa.BasicBlock{path[i], path[i+1]}] {
			if f.Kind != "true" && f.Kind != "false" {
				continue
			}
			for _, c := range cur {
				if c.Kind != f.Kind && c.A.String() == f.A.String() {
					return true
				}
			}
		}
	}
	return false
}

// stableTerm: built from parameters and constants only.
func stableTerm(t *Term) bool {
	ok := true
	t.Walk(func(x *Term) {
		switch x.Op {
		case "param", "const", "un", "bin":
		default:
			ok = false
		}
	})
	return ok
}

// PathTestFacts: what crossing the test at the end of path toward next says about the operand the path selected
// (e.g. `ready := force || n >= max; if !ready {return}`: past the test on the way through the right operand,
// n >= max holds).
func (ff *FnFacts) PathTestFacts(path []*ssa.BasicBlock, next *ssa.BasicBlock) []Fact {
	pt, v, _, ok := ff.pathOperand(path)
	if !ok {
		return nil
	}
	if _, isPhi := v.(*ssa.Phi); isPhi {
		return nil
	}
	p := path[len(path)-1]
	truth := next == p.Succs[0]
	switch {
	case pt.isBool:
		if _, isC := v.(*ssa.Const); isC {
			return nil
		}
		return ff.condFacts(v, truth == pt.neqOnTrue, p)
	case pt.k != nil:
		return []Fact{normCmp(ff.TB.Of(v), pt.opFor(truth), ff.TB.Of(pt.k))}
	case isNilConst(v):
		return nil
	case isErrorType(v.Type()):
		return ff.errFacts(v, truth != pt.neqOnTrue)
	}
	op := "=="
	if truth == pt.neqOnTrue {
		op = "!="
	}
	return []Fact{{Kind: "cmp", Op: op, A: ff.TB.Of(v), B: &Term{Op: "const", Name: "nil"}}}
}

// dataflow: edge facts and the forward must dataflow.
func (ff *FnFacts) dataflow() {
	fn := ff.Fn
	ff.tests = map[*ssa.BasicBlock]*phiTest{}
	ff.edgeOut = map[[2]*ssa.BasicBlock]FactSet{}
	ff.feasible = map[[2]*ssa.BasicBlock][][]int{}
	// Phase 2: edge facts.
	for _, b := range fn.Blocks {
		if !ff.Live[b] {
			continue
		}
		if iff, ok := b.Instrs[len(b.Instrs)-1].(*ssa.If); ok && b.Succs[0] != b.Succs[1] {
			ff.edge[[2]*ssa.BasicBlock{b, b.Succs[0]}] = ff.condFacts(iff.Cond, true, b)
			ff.edge[[2]*ssa.BasicBlock{b, b.Succs[1]}] = ff.condFacts(iff.Cond, false, b)
			if pt := findTest(b); pt != nil {
				ff.tests[b] = pt
				if ff.resolved[pt.phi] != nil {
					// the phi stands for one operand wherever it is USED; the test itself still sees the merged
					// value, so its outcome is stated about the phi as such
					raw := &Term{Op: "phi", Name: pt.phi.Name() + "@" + FuncName(fn), Val: pt.phi}
					for si, truth := range []bool{true, false} {
						var fs []Fact
						switch {
						case pt.isBool:
							k := "false"
							if truth == pt.neqOnTrue {
								k = "true"
							}
							fs = []Fact{{Kind: k, A: raw}}
						default:
							op := pt.opFor(truth)
							kt := &Term{Op: "const", Name: "nil"}
							if pt.k != nil {
								kt = ff.TB.Of(pt.k)
							}
							fs = []Fact{normCmp(raw, op, kt)}
						}
						ff.edge[[2]*ssa.BasicBlock{b, b.Succs[si]}] = fs
					}
				}
			}
		}
	}
	// Phase 3: forward must dataflow (intersection at joins).
	entry := FactSet{}
	for i, bv := range ff.Ctx.ParamBool {
		if i < len(fn.Params) {
			k := "false"
			if bv {
				k = "true"
			}
			entry.add(Fact{Kind: k, A: ff.TB.Of(fn.Params[i])})
		}
	}
	ff.In[fn.Blocks[0]] = entry
	changed := true
	for iter := 0; changed && iter < 200; iter++ {
		changed = false
		for _, b := range fn.Blocks {
			if !ff.Live[b] {
				continue
			}
			// the facts this block sends along its outgoing edges (used by test blocks downstream)
			if bin, ok := ff.In[b]; ok {
				for _, s := range b.Succs {
					if ff.dead[[2]*ssa.BasicBlock{b, s}] {
						continue
					}
					k := [2]*ssa.BasicBlock{b, s}
					o := ff.outToward(b, s, bin)
					if old, had := ff.edgeOut[k]; !had || len(old) != len(o) {
						ff.edgeOut[k] = o
						changed = true
					}
				}
			}
			if b == fn.Blocks[0] {
				continue
			}
			var acc FactSet
			first := true
			for _, p := range b.Preds {
				if !ff.Live[p] || ff.dead[[2]*ssa.BasicBlock{p, b}] {
					continue
				}
				out, ok := ff.edgeOut[[2]*ssa.BasicBlock{p, b}]
				if !ok {
					continue // TOP
				}
				if first {
					acc = out.clone()
					first = false
				} else {
					acc = intersect(acc, out)
				}
			}
			if first {
				continue
			}
			old, had := ff.In[b]
			if !had || len(old) != len(acc) {
				ff.In[b] = acc
				changed = true
			}
		}
	}
	if os.Getenv("SIDECHECK_DEBUG_FLOW") != "" && strings.Contains(fn.String(), os.Getenv("SIDECHECK_DEBUG_FLOW")) {
		for _, b := range fn.Blocks {
			fmt.Fprintf(os.Stderr, "block %d live=%v in=%d %v\n", b.Index, ff.Live[b], len(ff.In[b]), ff.In[b].Sorted())
			for _, s := range b.Succs {
				fmt.Fprintf(os.Stderr, "   -> %d out=%d feasible=%v\n", s.Index, len(ff.edgeOut[[2]*ssa.BasicBlock{b, s}]), ff.feasible[[2]*ssa.BasicBlock{b, s}])
			}
		}
	}
}

// resolvePhis: a phi of a test block all of whose uses lie behind one outgoing edge that a single incoming edge can
// reach has, wherever it is used, the value of that incoming edge's operand.
func (ff *FnFacts) resolvePhis() map[*ssa.Phi]ssa.Value {
	out := map[*ssa.Phi]ssa.Value{}
	for b, pt := range ff.tests {
		type cand struct {
			succ *ssa.BasicBlock
			idx  []int
		}
		var cands []cand
		for _, s := range b.Succs {
			f := ff.feasible[[2]*ssa.BasicBlock{b, s}]
			if len(f) == 1 && len(s.Preds) == 1 {
				cands = append(cands, cand{s, f[0]})
			}
		}
		if len(cands) == 0 {
			continue
		}
		for _, ins := range pt.chain[0].Instrs {
			phi, ok := ins.(*ssa.Phi)
			if !ok {
				break
			}
			refs := phi.Referrers()
			if refs == nil {
				continue
			}
			var chosen *cand
			okAll := true
			nUses := 0
			for _, r := range *refs {
				if _, isDbg := r.(*ssa.DebugRef); isDbg {
					continue
				}
				// the test itself
				if phi == pt.phi && r.Block() == b {
					switch r.(type) {
					case *ssa.BinOp, *ssa.UnOp, *ssa.If:
						continue
					}
				}
				useBlocks := []*ssa.BasicBlock{r.Block()}
				if up, isPhi := r.(*ssa.Phi); isPhi {
					useBlocks = nil
					for i, e := range up.Edges {
						if e == ssa.Value(phi) {
							useBlocks = append(useBlocks, up.Block().Preds[i])
						}
					}
				}
				for _, ub := range useBlocks {
					nUses++
					var hit *cand
					for i := range cands {
						if cands[i].succ.Dominates(ub) {
							hit = &cands[i]
						}
					}
					if hit == nil || (chosen != nil && chosen.succ != hit.succ) {
						okAll = false
					} else {
						chosen = hit
					}
				}
			}
			if okAll && chosen != nil && nUses > 0 {
				v := phi.Edges[chosen.idx[0]]
				q := pt.chain[0].Preds[chosen.idx[0]]
				for _, j := range chosen.idx[1:] {
					vp, isPhi := v.(*ssa.Phi)
					if !isPhi || vp.Block() != q {
						break
					}
					v = vp.Edges[j]
					q = q.Preds[j]
				}
				if v != ssa.Value(phi) {
					out[phi] = v
				}
			}
		}
	}
	return out
}

// outOf returns in ∪ facts generated inside block b (calls executed, stores,
// and success summaries of error-free calls are NOT added here: only events).
func (ff *FnFacts) outOf(b *ssa.BasicBlock, in FactSet) FactSet {
	out := in.clone()
	for _, ins := range b.Instrs {
		ff.genInstr(ins, out)
	}
	return out
}

// mutableLoc reports whether a location term names memory that may be
// written more than once (captured variables, multi-store locals, globals).
func mutableLoc(t *Term) bool {
	r := t.Root()
	if r == nil {
		return false
	}
	switch r.Op {
	case "fv", "new", "global", "oparam":
		return true
	}
	return false
}

func killMentioning(out FactSet, pred func(*Term) bool) {
	for k, f := range out {
		hit := false
		chk := func(t *Term) {
			if t != nil && !hit && t.Contains(pred) {
				hit = true
			}
		}
		chk(f.A)
		chk(f.B)
		for _, t := range f.List {
			chk(t)
		}
		if hit {
			delete(out, k)
		}
	}
}

// kill removes facts invalidated by ins (E1 side condition: a fact about a
// memory location does not survive a write to it; facts about captured
// variables do not survive calls, which may run closures that write them).
func (ff *FnFacts) kill(ins ssa.Instruction, out FactSet) {
	switch x := ins.(type) {
	case *ssa.Store:
		loc := ff.TB.Of(x.Addr)
		if mutableLoc(loc) {
			ls := loc.String()
			killMentioning(out, func(t *Term) bool { return t.Op == loc.Op && t.String() == ls })
		}
	case *ssa.MapUpdate:
		ms := ff.TB.Of(x.Map).String()
		for k, f := range out {
			if (f.Kind == "hit" || f.Kind == "miss") && f.A.String() == ms {
				delete(out, k)
			}
		}
	case *ssa.Call:
		if _, isB := x.Common().Value.(*ssa.Builtin); isB {
			return
		}
		if len(ff.Fn.FreeVars) == 0 && !ff.hasClosures() {
			return
		}
		killMentioning(out, func(t *Term) bool { return t.Op == "fv" })
		// a call may run a closure that writes a captured local: what was stored there is no longer known
		for k, f := range out {
			if f.Kind == "stored" && f.A != nil && f.A.Op == "new" {
				if al, ok := f.A.Val.(*ssa.Alloc); ok && ff.TB.escapes(al) {
					delete(out, k)
				}
			}
		}
	}
}

func (ff *FnFacts) hasClosures() bool { return len(ff.Fn.AnonFuncs) > 0 }

func (ff *FnFacts) genInstr(ins ssa.Instruction, out FactSet) {
	ff.kill(ins, out)
	switch x := ins.(type) {
	case *ssa.Call:
		t := ff.TB.Of(x)
		if t.Op == "call" {
			out.add(Fact{Kind: "called", A: t})
			// A call without an error result that returns is as good as ok:
			// its summary (facts at all returns) holds afterwards.
			// (not for a trailing bool result: the summary of such a function is what holds when it returns
			// true, and is added on the edge where the result is tested)
			if x.Common().StaticCallee() != nil && !hasErrorResult(x.Common().Signature()) && !hasBoolResult(x.Common().Signature()) {
				ff.addSummary(out, x.Common(), t)
			}
		}
	case *ssa.Store:
		out.add(Fact{Kind: "stored", A: ff.TB.Of(x.Addr), B: ff.TB.Of(x.Val)})
	}
}

func hasBoolResult(sig *types.Signature) bool {
	r := sig.Results()
	return r.Len() > 0 && types.Identical(r.At(r.Len()-1).Type().Underlying(), types.Typ[types.Bool])
}

func hasErrorResult(sig *types.Signature) bool {
	r := sig.Results()
	return r.Len() > 0 && isErrorType(r.At(r.Len()-1).Type())
}

// At returns the must-facts holding immediately before instruction ins.
func (ff *FnFacts) At(ins ssa.Instruction) FactSet {
	b := ins.Block()
	in, ok := ff.In[b]
	if !ok || !ff.Live[b] {
		return nil
	}
	out := in.clone()
	for _, i := range b.Instrs {
		if i == ins {
			break
		}
		ff.genInstr(i, out)
	}
	return out
}

// EdgeFacts returns the facts generated on edge from->to.
func (ff *FnFacts) EdgeFacts(from, to *ssa.BasicBlock) []Fact {
	base := ff.edge[[2]*ssa.BasicBlock{from, to}]
	// during a feasibility-aware walk the edge being examined also carries what the test at its source says about the
	// operand the walked path selected (see PathTestFacts)
	if len(ff.curExtra) > 0 && ff.curEdge == [2]*ssa.BasicBlock{from, to} {
		return append(append([]Fact{}, base...), ff.curExtra...)
	}
	return base
}

// EdgeOut returns the facts that hold when control has just taken the edge from->to (nil: edge never analysed).
func (ff *FnFacts) EdgeOut(from, to *ssa.BasicBlock) FactSet {
	return ff.edgeOut[[2]*ssa.BasicBlock{from, to}]
}

// IsLiveEdge reports whether the edge can be taken under the context.
func (ff *FnFacts) IsLiveEdge(from, to *ssa.BasicBlock) bool {
	return ff.Live[from] && !ff.dead[[2]*ssa.BasicBlock{from, to}]
}

func isNilConst(v ssa.Value) bool {
	c, ok := v.(*ssa.Const)
	return ok && c.Value == nil
}

var cmpOps = map[token.Token]string{token.EQL: "==", token.NEQ: "!=", token.LSS: "<", token.LEQ: "<=", token.GTR: ">", token.GEQ: ">="}

// condFacts returns the facts implied by cond having the given truth value.
func (ff *FnFacts) condFacts(cond ssa.Value, truth bool, at *ssa.BasicBlock) []Fact {
	switch c := cond.(type) {
	case *ssa.UnOp:
		if c.Op == token.NOT {
			return ff.condFacts(c.X, !truth, at)
		}
	case *ssa.BinOp:
		op, ok := cmpOps[c.Op]
		if !ok {
			break
		}
		if !truth {
			op = negOp[op]
		}
		// error compared with nil
		var other ssa.Value
		if isNilConst(c.Y) {
			other = c.X
		} else if isNilConst(c.X) {
			other = c.Y
		}
		if other != nil && isErrorType(other.Type()) && (op == "==" || op == "!=") {
			isNil := op == "=="
			return ff.errFacts(other, isNil)
		}
		return []Fact{normCmp(ff.TB.Of(c.X), op, ff.TB.Of(c.Y))}
	case *ssa.Call:
		t := ff.TB.Of(c)
		if truth {
			fs := []Fact{{Kind: "true", A: t}}
			// success summary of bool functions: facts at `return true`
			set := FactSet{}
			ff.addSummary(set, c.Common(), t)
			for _, f := range set.Sorted() {
				fs = append(fs, f)
			}
			return fs
		}
		return []Fact{{Kind: "false", A: t}}
	case *ssa.Extract:
		k := "false"
		if truth {
			k = "true"
		}
		switch tup := c.Tuple.(type) {
		case *ssa.Lookup:
			kind := "miss"
			if truth {
				kind = "hit"
			}
			return []Fact{{Kind: kind, A: ff.TB.Of(tup.X), B: ff.TB.Of(tup.Index)}}
		case *ssa.TypeAssert:
			kind := "nottype"
			if truth {
				kind = "istype"
			}
			return []Fact{{Kind: kind, A: ff.TB.Of(tup)}}
		case *ssa.Call:
			// comma-ok convention: `v, ok := f(...)`; on ok the success summary of f holds
			if sig := tup.Common().Signature(); truth && sig != nil && c.Index == sig.Results().Len()-1 {
				fs := []Fact{{Kind: k, A: ff.TB.Of(c)}}
				set := FactSet{}
				ff.addSummary(set, tup.Common(), ff.TB.Of(tup))
				for _, f := range set.Sorted() {
					fs = append(fs, f)
				}
				return fs
			}
		}
		return []Fact{{Kind: k, A: ff.TB.Of(c)}}
	case *ssa.Const:
		return nil
	case *ssa.Phi:
		// a boolean built by && / || and kept in a local: phi(false, e) being true means e is true
		// (phi(true, e) being false means e is false); other shapes stay opaque
		var nonConst []ssa.Value
		constsOpposite := true
		for _, e := range c.Edges {
			if k, ok := e.(*ssa.Const); ok && k.Value != nil {
				if (k.Value.String() == "true") == truth {
					constsOpposite = false
				}
				continue
			}
			nonConst = append(nonConst, e)
		}
		if constsOpposite && len(nonConst) == 1 && nonConst[0] != cond {
			k := "false"
			if truth {
				k = "true"
			}
			return append([]Fact{{Kind: k, A: ff.TB.Of(cond)}}, ff.condFacts(nonConst[0], truth, at)...)
		}
	}
	k := "false"
	if truth {
		k = "true"
	}
	return []Fact{{Kind: k, A: ff.TB.Of(cond)}}
}

// errFacts returns the facts implied by error value v being nil / non-nil.
func (ff *FnFacts) errFacts(v ssa.Value, isNil bool) []Fact {
	if phi, ok := v.(*ssa.Phi); ok {
		var calls []*Term
		allCalls := true
		for i, e := range phi.Edges {
			if !ff.TB.LiveEdge(phi.Block().Preds[i], phi.Block()) {
				continue
			}
			if isNilConst(e) {
				allCalls = false
				continue
			}
			ct := ff.callOfErr(e)
			if ct == nil {
				allCalls = false
				continue
			}
			calls = append(calls, ct)
		}
		if len(calls) == 1 && allCalls {
			return ff.okFail(calls[0], isNil)
		}
		if isNil && allCalls && len(calls) > 1 {
			f := Fact{Kind: "okany", List: calls}
			// facts common to all members' summaries
			var common FactSet
			for _, ct := range calls {
				set := FactSet{}
				if call, ok := ct.Val.(*ssa.Call); ok {
					ff.addSummary(set, call.Common(), ct)
				}
				if common == nil {
					common = set
				} else {
					common = intersect(common, set)
				}
			}
			out := []Fact{f}
			out = append(out, common.Sorted()...)
			return out
		}
		k := "cmp"
		op := "!="
		if isNil {
			op = "=="
		}
		return []Fact{{Kind: k, Op: op, A: ff.TB.Of(v), B: &Term{Op: "const", Name: "nil"}}}
	}
	ct := ff.callOfErr(v)
	if ct != nil {
		return ff.okFail(ct, isNil)
	}
	op := "!="
	if isNil {
		op = "=="
	}
	return []Fact{{Kind: "cmp", Op: op, A: ff.TB.Of(v), B: &Term{Op: "const", Name: "nil"}}}
}

// callOfErr returns the call term whose error result v is, or nil.
func (ff *FnFacts) callOfErr(v ssa.Value) *Term {
	t := ff.TB.Of(v)
	if t.Op == "err" && t.Args[0].Op == "call" {
		return t.Args[0]
	}
	if t.Op == "call" && isErrorType(v.Type()) {
		return t
	}
	return nil
}

func (ff *FnFacts) okFail(ct *Term, isNil bool) []Fact {
	if !isNil {
		return []Fact{{Kind: "fail", A: ct}}
	}
	out := []Fact{{Kind: "ok", A: ct}}
	if call, ok := ct.Val.(*ssa.Call); ok {
		set := FactSet{}
		ff.addSummary(set, call.Common(), ct)
		out = append(out, set.Sorted()...)
	}
	return out
}

// CalleeCtx is the exported form of calleeCtx.
func (ff *FnFacts) CalleeCtx(c *ssa.CallCommon, callee *ssa.Function) Ctx {
	return ff.calleeCtx(c, callee)
}

// calleeCtx derives the callee context from constant / assumed bool arguments.
func (ff *FnFacts) calleeCtx(c *ssa.CallCommon, callee *ssa.Function) Ctx {
	ctx := Ctx{}
	args := CallArgs(c)
	for i, a := range args {
		if i >= len(callee.Params) {
			break
		}
		if !types.Identical(callee.Params[i].Type().Underlying(), types.Typ[types.Bool]) {
			continue
		}
		if bv, ok := ff.paramConst(a); ok {
			if ctx.ParamBool == nil {
				ctx.ParamBool = map[int]bool{}
			}
			ctx.ParamBool[i] = bv
		}
	}
	return ctx
}

// addSummary adds the success summary of the call's callee(s), instantiated
// with the actual arguments, to set.
func (ff *FnFacts) addSummary(set FactSet, c *ssa.CallCommon, callTerm *Term) {
	var callees []*ssa.Function
	if c.IsInvoke() {
		callees = ff.eng.P.Impls(c.Method)
	} else if sc := c.StaticCallee(); sc != nil {
		callees = []*ssa.Function{sc}
	}
	if len(callees) == 0 {
		return
	}
	var actual []*Term
	for _, a := range CallArgs(c) {
		actual = append(actual, ff.TB.Of(a))
	}
	var acc FactSet
	for _, cal := range callees {
		if cal.Blocks == nil || !ff.eng.P.IsSubject(cal) {
			return
		}
		sum := ff.eng.Summary(cal, ff.calleeCtx(c, cal))
		inst := FactSet{}
		for _, f := range sum.Facts {
			nf := f.Subst(actual)
			nf = substResult(nf, callTerm)
			inst.add(nf)
		}
		if acc == nil {
			acc = inst
		} else {
			acc = intersect(acc, inst)
		}
	}
	for _, f := range acc {
		set.add(f)
	}
}

// substResult replaces "result" placeholder terms by the call-site result term.
func substResult(f Fact, callTerm *Term) Fact {
	var sub func(t *Term) *Term
	sub = func(t *Term) *Term {
		if t == nil {
			return nil
		}
		if t.Op == "result" {
			return &Term{Op: "res", Idx: t.Idx, Args: []*Term{callTerm}}
		}
		if len(t.Args) == 0 {
			return t
		}
		changed := false
		na := make([]*Term, len(t.Args))
		for i, a := range t.Args {
			na[i] = sub(a)
			if na[i] != a {
				changed = true
			}
		}
		if !changed {
			return t
		}
		c := *t
		c.Args = na
		c.str = ""
		return &c
	}
	n := Fact{Kind: f.Kind, Op: f.Op, A: sub(f.A), B: sub(f.B)}
	for _, t := range f.List {
		n.List = append(n.List, sub(t))
	}
	if n.Kind == "cmp" {
		return normCmp(n.A, n.Op, n.B)
	}
	return n
}

// nonNilErrorCtor lists functions that never return a nil error.
func nonNilErrorCtor(fn *ssa.Function) bool {
	return nonNilErrorCtorDepth(fn, 0)
}

func nonNilErrorCtorDepth(fn *ssa.Function, depth int) bool {
	if fn == nil {
		return false
	}
	switch fn.String() {
	case "errors.New", "fmt.Errorf",
		"github.com/pkg/errors.New", "github.com/pkg/errors.Errorf":
		return true
	}
	// a helper of the module whose only result is an error and whose every return
	// yields the result of a non-nil constructor (e.g. a 'bad request' wrapper)
	if depth > 2 || len(fn.Blocks) == 0 {
		return false
	}
	res := fn.Signature.Results()
	if res.Len() != 1 || !isErrorType(res.At(0).Type()) {
		return false
	}
	n := 0
	for _, b := range fn.Blocks {
		ret, ok := b.Instrs[len(b.Instrs)-1].(*ssa.Return)
		if !ok {
			continue
		}
		n++
		switch v := ret.Results[0].(type) {
		case *ssa.Call:
			if !nonNilErrorCtorDepth(v.Common().StaticCallee(), depth+1) {
				return false
			}
		case *ssa.MakeInterface:
			// a concrete value boxed into error
		default:
			return false
		}
	}
	return n > 0
}

// wrapsNonNil: pkg/errors.Wrap*(err,...) is non-nil iff err is non-nil.
func wrapCtor(fn *ssa.Function) bool {
	if fn == nil {
		return false
	}
	switch fn.String() {
	case "github.com/pkg/errors.Wrap", "github.com/pkg/errors.Wrapf",
		"github.com/pkg/errors.WithMessage", "github.com/pkg/errors.WithMessagef",
		"github.com/pkg/errors.WithStack":
		return true
	}
	return false
}

// RetClass classifies a Return for success summaries.
type RetClass int

const (
	RetFail RetClass = iota
	RetSuccess
)

// ReturnInfo describes one return of a function.
type ReturnInfo struct {
	Ret   *ssa.Return
	Class RetClass
	Facts FactSet // facts holding at the return, including those implied by the result being a success
}

// errResultIndex returns the index of the trailing error result, or -1.
func errResultIndex(fn *ssa.Function) int {
	r := fn.Signature.Results()
	if r.Len() > 0 && isErrorType(r.At(r.Len()-1).Type()) {
		return r.Len() - 1
	}
	return -1
}

// Returns classifies every live return of ff.Fn. For functions with a trailing
// error result success means "error is nil"; for functions with a single bool
// result success means "returns true"; otherwise every return is a success.
func (ff *FnFacts) Returns() []ReturnInfo {
	fn := ff.Fn
	var out []ReturnInfo
	ei := errResultIndex(fn)
	res := fn.Signature.Results()
	// a trailing bool result (single, or the comma-ok convention `(value, ok)`) plays the role of the error
	bi := res.Len() - 1
	boolOnly := ei < 0 && res.Len() >= 1 && types.Identical(res.At(bi).Type().Underlying(), types.Typ[types.Bool])
	for _, b := range fn.Blocks {
		if !ff.Live[b] {
			continue
		}
		ret, ok := b.Instrs[len(b.Instrs)-1].(*ssa.Return)
		if !ok {
			continue
		}
		facts := ff.At(ret)
		if facts == nil {
			continue
		}
		info := ReturnInfo{Ret: ret, Class: RetSuccess, Facts: facts}
		switch {
		case ei >= 0:
			ev := RetOp(ret, ei)
			possible, extra := ff.nilErr(ev, facts)
			if !possible {
				info.Class = RetFail
			} else {
				for _, f := range extra {
					facts.add(f)
				}
			}
		case boolOnly:
			rv := RetOp(ret, bi)
			if c, ok := rv.(*ssa.Const); ok {
				if c.Value.String() != "true" {
					info.Class = RetFail
				}
			} else {
				for _, f := range ff.condFacts(rv, true, b) {
					facts.add(f)
				}
			}
		}
		out = append(out, info)
	}
	return out
}

// nilErr decides whether error value v can be nil at a point where facts
// hold, and which extra facts follow if it is.
func (ff *FnFacts) nilErr(v ssa.Value, facts FactSet) (bool, []Fact) {
	return ff.nilErrSeen(v, facts, map[ssa.Value]bool{})
}

func (ff *FnFacts) nilErrSeen(v ssa.Value, facts FactSet, seen map[ssa.Value]bool) (bool, []Fact) {
	if isNilConst(v) {
		return true, nil
	}
	if seen[v] {
		// a loop-carried value met again: it adds no way of being nil (or non-nil) beyond its other operands
		return false, nil
	}
	seen[v] = true
	switch x := v.(type) {
	case *ssa.MakeInterface:
		// a concrete value boxed into error: non-nil interface
		return false, nil
	case *ssa.UnOp:
		if x.Op == token.MUL {
			if _, ok := x.X.(*ssa.Global); ok {
				return false, nil // sentinel error variable
			}
			// a (possibly captured) local error variable whose current content is known from a stored fact
			if al, ok := x.X.(*ssa.Alloc); ok {
				as := ff.TB.Of(al).String()
				// what the variable held when it was read: the facts just before the load
				at := ff.At(x)
				if at == nil {
					at = facts
				}
				for _, f := range at {
					if f.Kind == "stored" && f.A != nil && f.A.String() == as && f.B != nil {
						if f.B.Op == "const" && f.B.Name == "nil" {
							return true, nil
						}
						if sv, isV := f.B.Val.(ssa.Value); isV && sv != v {
							return ff.nilErrSeen(sv, facts, seen)
						}
					}
				}
			}
		}
	case *ssa.Phi:
		if rv := ff.resolved[x]; rv != nil {
			return ff.nilErrSeen(rv, facts, seen) // wherever it is used, the phi is this operand
		}
		if facts.Has((&Fact{Kind: "cmp", Op: "!=", A: ff.TB.Of(v), B: &Term{Op: "const", Name: "nil"}}).Key()) {
			return false, nil // tested non-nil after the join
		}
		possible := false
		var acc FactSet
		for i, e := range x.Edges {
			if !ff.TB.LiveEdge(x.Block().Preds[i], x.Block()) {
				continue
			}
			p, fs := ff.nilErrSeen(e, facts, seen)
			if !p {
				continue
			}
			possible = true
			set := FactSet{}
			for _, f := range fs {
				set.add(f)
			}
			if acc == nil {
				acc = set
			} else {
				acc = intersect(acc, set)
			}
		}
		return possible, acc.Sorted()
	}
	// a value built by a constructor that never returns nil (fmt.Errorf, errors.New, …) is non-nil whatever it wraps
	if call, ok := v.(*ssa.Call); ok && nonNilErrorCtor(call.Common().StaticCallee()) {
		return false, nil
	}
	ct := ff.callOfErr(v)
	if ct != nil {
		if facts.Has((&Fact{Kind: "fail", A: ct}).Key()) {
			return false, nil
		}
		if facts.Has((&Fact{Kind: "ok", A: ct}).Key()) {
			return true, nil
		}
		if nonNilErrorCtor(ct.Callee) {
			return false, nil
		}
		if wrapCtor(ct.Callee) && len(ct.Args) > 0 {
			// non-nil iff wrapped error non-nil
			if call, ok := ct.Val.(*ssa.Call); ok && len(call.Call.Args) > 0 {
				return ff.nilErrSeen(call.Call.Args[0], facts, seen)
			}
		}
		return true, ff.okFail(ct, true)
	}
	// unknown error value: a fact cmp(v != nil) proves failure
	t := ff.TB.Of(v)
	if facts.Has((&Fact{Kind: "cmp", Op: "!=", A: t, B: &Term{Op: "const", Name: "nil"}}).Key()) {
		return false, nil
	}
	return true, nil
}

// Summary computes Succ(fn | ctx): the facts that hold at every success return.
func (e *Engine) Summary(fn *ssa.Function, ctx Ctx) *Summary {
	k := fkey(fn, ctx)
	if s, ok := e.sums[k]; ok {
		return s
	}
	if e.busy[k] {
		return &Summary{Facts: FactSet{}}
	}
	e.busy[k] = true
	defer delete(e.busy, k)
	ff := e.Facts(fn, ctx)
	var acc FactSet
	n := 0
	nres := fn.Signature.Results().Len()
	resTerms := make([]*Term, nres)
	resSame := make([]bool, nres)
	for i := range resSame {
		resSame[i] = true
	}
	for _, r := range ff.Returns() {
		if r.Class != RetSuccess {
			continue
		}
		n++
		set := r.Facts.clone()
		// result-field provenance for struct literals returned as result 0
		for _, f := range ff.resultFieldFacts(r.Ret) {
			set.add(f)
		}
		for i := 0; i < nres && i < len(r.Ret.Results); i++ {
			t := ff.TB.Of(RetOp(r.Ret, i))
			if resTerms[i] == nil {
				resTerms[i] = t
			} else if resTerms[i].String() != t.String() {
				resSame[i] = false
			}
		}
		if acc == nil {
			acc = set
		} else {
			acc = intersect(acc, set)
		}
	}
	s := &Summary{Facts: FactSet{}, HasSuccess: n > 0, Successes: n}
	for _, f := range acc {
		if f.Kind == "stored" || f.Kind == "called" {
			continue
		}
		// express facts about the returned values through <result k>
		for i := 0; i < nres; i++ {
			if resTerms[i] == nil || !resSame[i] {
				continue
			}
			switch resTerms[i].Op {
			case "const", "unk", "param":
				continue
			}
			if isErrorType(fn.Signature.Results().At(i).Type()) {
				continue
			}
			f = f.replace(resTerms[i], &Term{Op: "result", Idx: i})
		}
		s.Facts.add(f)
	}
	// the returned values themselves: <result k> == term
	for i := 0; i < nres; i++ {
		if resTerms[i] == nil || !resSame[i] {
			continue
		}
		switch resTerms[i].Op {
		case "const", "phi", "unk", "new", "err":
			continue
		}
		if isErrorType(fn.Signature.Results().At(i).Type()) {
			continue
		}
		s.Facts.add(Fact{Kind: "cmp", Op: "==", A: &Term{Op: "result", Idx: i}, B: resTerms[i]})
	}
	e.sums[k] = s
	return s
}

// Replace is the exported form of replace.
func (f Fact) Replace(from, to *Term) Fact { return f.replace(from, to) }

// replace substitutes every sub-term whose string is from by to.
func (f Fact) replace(fromT *Term, to *Term) Fact {
	from := fromT.String()
	var sub func(t *Term) *Term
	sub = func(t *Term) *Term {
		if t == nil {
			return nil
		}
		if t.Op == fromT.Op && t.String() == from {
			return to
		}
		if len(t.Args) == 0 {
			return t
		}
		changed := false
		na := make([]*Term, len(t.Args))
		for i, a := range t.Args {
			na[i] = sub(a)
			if na[i] != a {
				changed = true
			}
		}
		if !changed {
			return t
		}
		c := *t
		c.Args = na
		c.str = ""
		return &c
	}
	n := Fact{Kind: f.Kind, Op: f.Op, A: sub(f.A), B: sub(f.B)}
	for _, t := range f.List {
		n.List = append(n.List, sub(t))
	}
	if n.Kind == "cmp" {
		return normCmp(n.A, n.Op, n.B)
	}
	return n
}

// resultFieldFacts: when result 0 of ret is a struct allocated in this
// function, every field that is stored exactly once in the function (and that
// store is certain at ret) yields cmp(result.F == value).
func (ff *FnFacts) resultFieldFacts(ret *ssa.Return) []Fact {
	if len(ret.Results) == 0 {
		return nil
	}
	var out []Fact
	switch rv := RetOp(ret, 0).(type) {
	case *ssa.Alloc:
		if derefStruct(rv.Type()) == nil {
			return nil
		}
		at := ff.At(ret)
		byField := map[string][]*ssa.Store{}
		for _, b := range ff.Fn.Blocks {
			for _, ins := range b.Instrs {
				st, ok := ins.(*ssa.Store)
				if !ok {
					continue
				}
				fa, ok := st.Addr.(*ssa.FieldAddr)
				if !ok || fa.X != rv {
					continue
				}
				name := derefStruct(rv.Type()).Field(fa.Field).Name()
				byField[name] = append(byField[name], st)
			}
		}
		for name, sts := range byField {
			if len(sts) != 1 {
				continue
			}
			st := sts[0]
			sf := Fact{Kind: "stored", A: ff.TB.Of(st.Addr), B: ff.TB.Of(st.Val)}
			if !at.Has(sf.Key()) {
				continue
			}
			res := &Term{Op: "field", Name: name, Args: []*Term{{Op: "result", Idx: 0}}}
			out = append(out, normCmp(res, "==", ff.TB.Of(st.Val)))
		}
	}
	return out
}

// RetOp returns the i-th result operand of ret, looking through the result
// spill go/ssa introduces in functions with defers (store to a result alloc,
// rundefers, load, return).
func RetOp(ret *ssa.Return, i int) ssa.Value {
	v := ret.Results[i]
	u, ok := v.(*ssa.UnOp)
	if !ok || u.Op != token.MUL {
		return v
	}
	al, ok := u.X.(*ssa.Alloc)
	if !ok {
		return v
	}
	// last store to the alloc in the return's block before the load
	var last ssa.Value
	for _, ins := range ret.Block().Instrs {
		if ins == ssa.Instruction(u) {
			break
		}
		if st, ok := ins.(*ssa.Store); ok && st.Addr == ssa.Value(al) {
			last = st.Val
		}
	}
	if last != nil {
		return last
	}
	return v
}

// CondFacts returns the facts established when cond evaluates to truth.
func (ff *FnFacts) CondFacts(cond ssa.Value, truth bool, at *ssa.BasicBlock) []Fact {
	return ff.condFacts(cond, truth, at)
}
