package core

import (
	"fmt"
	"go/constant"
	"go/token"
	"go/types"
	"strconv"
	"strings"
	"sync"

	"golang.org/x/tools/go/ssa"
)

// Term is an access path / symbolic expression naming an SSA value
// independently of go/ssa's lack of CSE (engine E1).
type Term struct {
	Op   string // param, recvfree, const, field, call, res, bin, un, len, idx, global, new, phi, unk, fv, conv, slice, lookup, typeassert, range, fn, cap
	Name string
	Idx  int
	Args []*Term

	Obj    types.Object  // field var / global / callee object where known
	Callee *ssa.Function // for call: resolved static callee or unique impl
	Val    ssa.Value     // originating value (may be nil for substituted terms)
	str    string
}

func (t *Term) String() string {
	if t == nil {
		return "<nil>"
	}
	if t.str != "" {
		return t.str
	}
	var s string
	switch t.Op {
	case "param":
		s = "$" + t.Name
	case "fv":
		s = "^" + t.Name
	case "oparam":
		s = "^$" + t.Name
	case "const":
		s = t.Name
	case "field":
		s = t.Args[0].String() + "." + t.Name
	case "call":
		as := make([]string, len(t.Args))
		for i, a := range t.Args {
			as[i] = a.String()
		}
		s = t.Name + "(" + strings.Join(as, ", ") + ")"
	case "res":
		if t.Idx == 0 {
			s = t.Args[0].String()
		} else {
			s = fmt.Sprintf("%s#%d", t.Args[0].String(), t.Idx)
		}
	case "err":
		s = "err(" + t.Args[0].String() + ")"
	case "bin":
		s = "(" + t.Args[0].String() + " " + t.Name + " " + t.Args[1].String() + ")"
	case "un":
		s = t.Name + t.Args[0].String()
	case "len", "cap":
		s = t.Op + "(" + t.Args[0].String() + ")"
	case "idx":
		s = t.Args[0].String() + "[" + t.Args[1].String() + "]"
	case "elem":
		s = t.Args[0].String() + "[*]"
	case "lookup":
		s = t.Args[0].String() + "[" + t.Args[1].String() + "]"
	case "slice":
		as := []string{"", "", ""}
		for i := 1; i < len(t.Args) && i < 4; i++ {
			if t.Args[i] != nil {
				as[i-1] = t.Args[i].String()
			}
		}
		s = t.Args[0].String() + "[" + as[0] + ":" + as[1] + "]"
	case "global":
		s = t.Name
	case "result":
		s = fmt.Sprintf("<result%d>", t.Idx)
	case "typeassert":
		s = t.Args[0].String() + ".(" + t.Name + ")"
	case "orzero":
		s = "orzero(" + t.Args[0].String() + ")"
	default:
		s = t.Op + ":" + t.Name
	}
	t.str = s
	return s
}

// StripOrZero replaces every orzero(X) in t by X: the reading "this value, or the zero value of its type". Only rules
// for which the zero value is harmless (a count of 0, an empty list) may match on the stripped term.
func StripOrZero(t *Term) *Term {
	if t == nil {
		return nil
	}
	if t.Op == "orzero" && len(t.Args) == 1 {
		return StripOrZero(t.Args[0])
	}
	changed := false
	na := make([]*Term, len(t.Args))
	for i, a := range t.Args {
		na[i] = StripOrZero(a)
		if na[i] != a {
			changed = true
		}
	}
	if !changed {
		return t
	}
	c := *t
	c.Args = na
	c.str = ""
	return &c
}

// Root returns the left-most base of a field/index chain.
func (t *Term) Root() *Term {
	for t != nil {
		switch t.Op {
		case "field", "idx", "elem", "lookup", "slice", "res", "typeassert":
			t = t.Args[0]
		default:
			return t
		}
	}
	return nil
}

// Walk visits t and all sub-terms.
func (t *Term) Walk(f func(*Term)) {
	if t == nil {
		return
	}
	f(t)
	for _, a := range t.Args {
		a.Walk(f)
	}
}

// Contains reports whether some sub-term satisfies pred.
func (t *Term) Contains(pred func(*Term) bool) bool {
	found := false
	t.Walk(func(x *Term) {
		if pred(x) {
			found = true
		}
	})
	return found
}

// Subst replaces parameter terms of callee by the actual argument terms.
func (t *Term) Subst(actual []*Term) *Term {
	if t == nil {
		return nil
	}
	if t.Op == "param" {
		if t.Idx < len(actual) && actual[t.Idx] != nil {
			return actual[t.Idx]
		}
		return t
	}
	if len(t.Args) == 0 {
		return t
	}
	changed := false
	na := make([]*Term, len(t.Args))
	for i, a := range t.Args {
		na[i] = a.Subst(actual)
		if na[i] != a {
			changed = true
		}
	}
	if !changed {
		return t
	}
	c := *t
	c.Args = na
	c.str = ""
	return &c
}

// TermBuilder builds terms for the values of one function.
type TermBuilder struct {
	P    *Prog
	Fn   *ssa.Function
	memo map[ssa.Value]*Term
	busy map[ssa.Value]bool
	// stores per alloc
	stores    map[ssa.Value][]*ssa.Store
	newOrd    map[ssa.Value]int
	prepared  bool
	busyLoad  map[string]bool
	fallbacks int
	// LivePred, when set, tells whether the edge pred->blk is live (used to
	// resolve phis under assumptions).
	LiveEdge func(from, to *ssa.BasicBlock) bool
	// PhiResolve, when set, names the operand a phi is known to equal at all of its uses (nil: unknown).
	PhiResolve func(p *ssa.Phi) ssa.Value
}

// NewTermBuilder returns a builder for fn.
func NewTermBuilder(p *Prog, fn *ssa.Function) *TermBuilder {
	return &TermBuilder{P: p, Fn: fn, memo: map[ssa.Value]*Term{}, busy: map[ssa.Value]bool{}}
}

func (tb *TermBuilder) prepare() {
	if tb.prepared {
		return
	}
	tb.prepared = true
	tb.stores = map[ssa.Value][]*ssa.Store{}
	tb.newOrd = map[ssa.Value]int{}
	ord := map[string]int{}
	for _, b := range tb.Fn.Blocks {
		for _, in := range b.Instrs {
			switch x := in.(type) {
			case *ssa.Store:
				tb.stores[x.Addr] = append(tb.stores[x.Addr], x)
			case *ssa.Alloc:
				k := x.Type().String()
				tb.newOrd[x] = ord[k]
				ord[k]++
			}
		}
	}
}

// CalleeKey names the target of a call: the static callee, or for an
// interface call the unique subject implementation when there is exactly one,
// else the interface method.
func (p *Prog) CalleeKey(c *ssa.CallCommon) (key string, fn *ssa.Function, obj types.Object) {
	if c.IsInvoke() {
		impls := p.Impls(c.Method)
		var one *ssa.Function
		if len(impls) == 1 {
			one = impls[0]
		}
		recv := c.Method.Type().(*types.Signature).Recv().Type().String()
		recv = shorten(strings.ReplaceAll(recv, Module+"/", ""))
		return "iface:" + recv + "." + c.Method.Name(), one, c.Method
	}
	if sc := c.StaticCallee(); sc != nil {
		f := sc
		if f.Origin() != nil {
			f = f.Origin()
		}
		return FuncName(f), sc, sc.Object()
	}
	if b, ok := c.Value.(*ssa.Builtin); ok {
		return "builtin:" + b.Name(), nil, b.Object()
	}
	return "dyn", nil, nil
}

func isErrorType(t types.Type) bool {
	return types.Identical(t, types.Universe.Lookup("error").Type())
}

// ConstString renders a constant.
func ConstString(c *ssa.Const) string {
	if c.Value == nil {
		return "nil"
	}
	if c.Value.Kind() == constant.String {
		return fmt.Sprintf("%q", constant.StringVal(c.Value))
	}
	return c.Value.ExactString()
}

// Of returns the term of v.
func (tb *TermBuilder) Of(v ssa.Value) *Term {
	if v == nil {
		return &Term{Op: "unk", Name: "nil"}
	}
	if t, ok := tb.memo[v]; ok {
		return t
	}
	if tb.busy[v] {
		tb.fallbacks++
		return &Term{Op: "phi", Name: v.Name() + "@" + FuncName(tb.Fn), Val: v}
	}
	tb.busy[v] = true
	before := tb.fallbacks
	t := tb.build(v)
	delete(tb.busy, v)
	if t.Val == nil {
		t.Val = v
	}
	// a term built while a cycle was being cut contains a placeholder for a value that is still being
	// built further up; it is only valid for that outer computation and must not be cached
	if tb.fallbacks == before || len(tb.busy) == 0 {
		tb.memo[v] = t
	}
	return t
}

func (tb *TermBuilder) build(v ssa.Value) *Term {
	tb.prepare()
	switch x := v.(type) {
	case *ssa.Parameter:
		for i, p := range tb.Fn.Params {
			if p == x {
				return &Term{Op: "param", Name: x.Name(), Idx: i, Val: x}
			}
		}
		// parameter of an enclosing function? (should not happen)
		return &Term{Op: "param", Name: x.Name(), Idx: -1, Val: x}
	case *ssa.FreeVar:
		return &Term{Op: "fv", Name: x.Name(), Val: x}
	case *ssa.Const:
		return &Term{Op: "const", Name: ConstString(x), Val: x}
	case *ssa.Global:
		return &Term{Op: "global", Name: shorten(Rel(x.Pkg.Pkg.Path())) + "." + x.Name(), Obj: x.Object(), Val: x}
	case *ssa.Function:
		return &Term{Op: "fn", Name: FuncName(x), Val: x}
	case *ssa.FieldAddr:
		st := derefStruct(x.X.Type())
		f := st.Field(x.Field)
		base := tb.Of(x.X)
		if al, ok := x.X.(*ssa.Alloc); ok {
			// spilled struct parameter / local: name the field through the stored value
			base = tb.load(al)
		}
		return &Term{Op: "field", Name: f.Name(), Obj: f, Args: []*Term{base}}
	case *ssa.Field:
		st := derefStruct(x.X.Type())
		f := st.Field(x.Field)
		return &Term{Op: "field", Name: f.Name(), Obj: f, Args: []*Term{tb.Of(x.X)}}
	case *ssa.UnOp:
		switch x.Op {
		case token.MUL:
			// store-to-load forwarding inside one block: `err = f(); if err != nil` on a variable that
			// escapes (a named result captured by a deferred closure) still reads the value just stored,
			// provided no call (which could run such a closure) lies between the store and the load
			if al, ok := x.X.(*ssa.Alloc); ok {
				if blk := x.Block(); blk != nil {
					pos := -1
					for i, ins := range blk.Instrs {
						if ins == ssa.Instruction(x) {
							pos = i
						}
					}
				scan:
					for i := pos - 1; i >= 0; i-- {
						switch y := blk.Instrs[i].(type) {
						case *ssa.Store:
							if y.Addr == ssa.Value(al) {
								return tb.Of(y.Val)
							}
						case ssa.CallInstruction:
							break scan
						}
					}
				}
			}
			return tb.load(x.X)
		case token.NOT:
			return &Term{Op: "un", Name: "!", Args: []*Term{tb.Of(x.X)}}
		case token.SUB:
			return &Term{Op: "un", Name: "-", Args: []*Term{tb.Of(x.X)}}
		case token.ARROW:
			return &Term{Op: "un", Name: "<-", Args: []*Term{tb.Of(x.X)}}
		default:
			return &Term{Op: "un", Name: x.Op.String(), Args: []*Term{tb.Of(x.X)}}
		}
	case *ssa.BinOp:
		return &Term{Op: "bin", Name: x.Op.String(), Args: []*Term{tb.Of(x.X), tb.Of(x.Y)}}
	case *ssa.Call:
		return tb.callTerm(x.Common(), x)
	case *ssa.Extract:
		base := tb.Of(x.Tuple)
		if isErrorType(x.Type()) {
			return &Term{Op: "err", Args: []*Term{base}}
		}
		return &Term{Op: "res", Idx: x.Index, Args: []*Term{base}}
	case *ssa.ChangeType:
		return tb.Of(x.X)
	case *ssa.ChangeInterface:
		return tb.Of(x.X)
	case *ssa.MakeInterface:
		return tb.Of(x.X)
	case *ssa.Convert:
		return tb.Of(x.X)
	case *ssa.SliceToArrayPointer:
		return tb.Of(x.X)
	case *ssa.MultiConvert:
		return tb.Of(x.X)
	case *ssa.Phi:
		if tb.PhiResolve != nil {
			if rv := tb.PhiResolve(x); rv != nil {
				return tb.Of(rv)
			}
		}
		var only *Term
		same := true
		n := 0
		for i, e := range x.Edges {
			if tb.LiveEdge != nil && !tb.LiveEdge(x.Block().Preds[i], x.Block()) {
				continue
			}
			t := tb.Of(e)
			n++
			if only == nil {
				only = t
			} else if only.String() != t.String() {
				same = false
			}
		}
		if same && only != nil && only.Op != "phi" {
			return only
		}
		return &Term{Op: "phi", Name: x.Name() + "@" + FuncName(tb.Fn), Val: x}
	case *ssa.Alloc:
		return tb.allocTerm(x)
	case *ssa.IndexAddr:
		return &Term{Op: "idx", Args: []*Term{tb.Of(x.X), tb.Of(x.Index)}}
	case *ssa.Index:
		return &Term{Op: "idx", Args: []*Term{tb.Of(x.X), tb.Of(x.Index)}}
	case *ssa.Lookup:
		return &Term{Op: "lookup", Args: []*Term{tb.Of(x.X), tb.Of(x.Index)}}
	case *ssa.Slice:
		args := []*Term{tb.Of(x.X), nil, nil}
		if x.Low != nil {
			args[1] = tb.Of(x.Low)
		}
		if x.High != nil {
			args[2] = tb.Of(x.High)
		}
		return &Term{Op: "slice", Args: args}
	case *ssa.TypeAssert:
		return &Term{Op: "typeassert", Name: types.TypeString(x.AssertedType, relQualifier), Args: []*Term{tb.Of(x.X)}}
	case *ssa.MakeMap, *ssa.MakeSlice, *ssa.MakeChan:
		return &Term{Op: "new", Name: fmt.Sprintf("%s#%s@%s", types.TypeString(v.Type(), relQualifier), v.Name(), FuncName(tb.Fn)), Val: v}
	case *ssa.MakeClosure:
		return &Term{Op: "fn", Name: FuncName(x.Fn.(*ssa.Function)), Val: x}
	case *ssa.Next:
		return &Term{Op: "range", Name: x.Name() + "@" + FuncName(tb.Fn), Args: []*Term{tb.Of(x.Iter)}}
	case *ssa.Range:
		return &Term{Op: "rangeof", Args: []*Term{tb.Of(x.X)}}
	}
	return &Term{Op: "unk", Name: fmt.Sprintf("%T:%s@%s", v, v.Name(), FuncName(tb.Fn)), Val: v}
}

func relQualifier(p *types.Package) string { return shorten(Rel(p.Path())) }

func derefStruct(t types.Type) *types.Struct {
	t = t.Underlying()
	if p, ok := t.(*types.Pointer); ok {
		t = p.Elem().Underlying()
	}
	s, _ := t.(*types.Struct)
	return s
}

func (tb *TermBuilder) allocTerm(a *ssa.Alloc) *Term {
	return &Term{Op: "new", Name: fmt.Sprintf("%s#%d@%s", types.TypeString(a.Type().(*types.Pointer).Elem(), relQualifier), tb.newOrd[a], FuncName(tb.Fn)), Val: a}
}

// load names the value obtained by dereferencing addr.
func (tb *TermBuilder) load(addr ssa.Value) *Term {
	switch a := addr.(type) {
	case *ssa.Alloc:
		st := tb.stores[a]
		if len(st) == 1 && !tb.escapes(a) {
			return tb.Of(st[0].Val)
		}
		return tb.allocTerm(a)
	case *ssa.FieldAddr:
		// field of an element of a slice literal (a table): name what the literal put there
		if ia, ok := a.X.(*ssa.IndexAddr); ok {
			if t := tb.tableElem(ia, a.Field); t != nil {
				return t
			}
		}
		// field of a fresh local struct that is assigned exactly once: name the stored value
		if al, ok := tb.Strip(a.X).(*ssa.Alloc); ok {
			var only *ssa.Store
			n := 0
			for _, blk := range tb.Fn.Blocks {
				for _, ins := range blk.Instrs {
					st, ok := ins.(*ssa.Store)
					if !ok {
						continue
					}
					fa, ok := st.Addr.(*ssa.FieldAddr)
					if !ok || fa.Field != a.Field || !mayBe(fa.X, al, 0) {
						continue
					}
					n++
					only = st
				}
			}
			// a struct copied once as a whole from another local struct (`x := y`, a by-value argument): read y's field
			if n == 0 && len(tb.stores[al]) == 1 && localOnly(al) {
				if ld, isLd := tb.stores[al][0].Val.(*ssa.UnOp); isLd && ld.Op == token.MUL {
					// `row := table[k]`: a copy of an element of a slice literal
					if ia, isIA := ld.X.(*ssa.IndexAddr); isIA {
						if t := tb.tableElem(ia, a.Field); t != nil {
							return t
						}
					}
					if src, isAl := tb.Strip(ld.X).(*ssa.Alloc); isAl && src != al {
						key := fmt.Sprintf("%p.%d.copy", al, a.Field)
						if tb.busyLoad == nil {
							tb.busyLoad = map[string]bool{}
						}
						if !tb.busyLoad[key] {
							tb.busyLoad[key] = true
							fa := &fieldOf{X: src, Field: a.Field}
							t := tb.loadField(fa, ld)
							delete(tb.busyLoad, key)
							if t != nil {
								return t
							}
						}
					}
				}
			}
			// ... or from a merge of such structs and the zero struct (`c := candidate{}` on one path, a filled literal on
			// the other): the field holds that value or the zero value — orzero(X), which only zero-tolerant matching accepts
			if n == 0 && len(tb.stores[al]) >= 1 && localOnly(al) {
				key := fmt.Sprintf("%p.%d.merge", al, a.Field)
				if tb.busyLoad == nil {
					tb.busyLoad = map[string]bool{}
				}
				if !tb.busyLoad[key] {
					tb.busyLoad[key] = true
					var only *Term
					okAll := true
					tb.mergedField(al, a.Field, map[*ssa.Alloc]bool{}, &only, &okAll)
					delete(tb.busyLoad, key)
					if okAll && only != nil {
						return &Term{Op: "orzero", Args: []*Term{only}}
					}
				}
			}
			if n == 1 && len(tb.stores[al]) == 0 {
				key := fmt.Sprintf("%p.%d", al, a.Field)
				if tb.busyLoad == nil {
					tb.busyLoad = map[string]bool{}
				}
				// a self-referential store (x.F = append(x.F, …)) is not a definition
				if !tb.busyLoad[key] && !dependsOnField(only.Val, al, a.Field, 0) {
					tb.busyLoad[key] = true
					t := tb.Of(only.Val)
					delete(tb.busyLoad, key)
					return t
				}
			}
		}
		return tb.Of(a)
	case *ssa.IndexAddr:
		// an element of a slice literal (a table of scalars / slices): what the literal put there
		if _, isStruct := a.Type().(*types.Pointer).Elem().Underlying().(*types.Struct); !isStruct {
			if t := tb.tableElem(a, -1); t != nil {
				return t
			}
		}
		return tb.Of(a)
	case *ssa.Global:
		return tb.Of(a)
	case *ssa.FreeVar:
		if t := tb.capturedOnce(a); t != nil {
			return t
		}
	}
	return tb.Of(addr)
}

// precedes: a is executed before b on every way to b (same block earlier, or a's block strictly dominates b's).
func precedes(a, b ssa.Instruction) bool {
	if a.Block() == b.Block() {
		for _, ins := range a.Block().Instrs {
			if ins == a {
				return true
			}
			if ins == b {
				return false
			}
		}
		return false
	}
	return a.Block().Dominates(b.Block())
}

// localOnly: the address of the local never leaves the function — it is only loaded, stored into, and its fields are
// only loaded and stored into.
func localOnly(a *ssa.Alloc) bool {
	refs := a.Referrers()
	if refs == nil {
		return false
	}
	for _, r := range *refs {
		switch x := r.(type) {
		case *ssa.Store:
			if x.Addr != ssa.Value(a) {
				return false
			}
		case *ssa.UnOp:
			if x.Op != token.MUL {
				return false
			}
		case *ssa.DebugRef:
		case *ssa.FieldAddr:
			if frefs := x.Referrers(); frefs != nil {
				for _, fr := range *frefs {
					switch y := fr.(type) {
					case *ssa.UnOp:
						if y.Op != token.MUL {
							return false
						}
					case *ssa.Store:
						if y.Addr != ssa.Value(x) {
							return false
						}
					case *ssa.DebugRef:
					default:
						return false
					}
				}
			}
		default:
			return false
		}
	}
	return true
}

// tableElem: ia addresses element k (a constant) of a slice literal — a local one, or the initialiser of a package
// variable that nothing else in the package assigns; the result names what the literal stored into field f of that
// element (field < 0: the element itself), or nil. For a package-level table only constants and functions qualify
// (their terms mean the same in every function).
func (tb *TermBuilder) tableElem(ia *ssa.IndexAddr, field int) *Term {
	kc, ok := ia.Index.(*ssa.Const)
	if !ok || kc.Value == nil || kc.Value.Kind() != constant.Int {
		return nil
	}
	k, _ := constant.Int64Val(kc.Value)
	var arr *ssa.Alloc
	global := false
	fn := tb.Fn
	switch x := ia.X.(type) {
	case *ssa.Slice:
		if x.Low != nil || x.High != nil || x.Max != nil {
			return nil
		}
		arr, _ = x.X.(*ssa.Alloc)
		if arr == nil || !literalArray(arr, x) {
			return nil
		}
	case *ssa.UnOp:
		g, isG := x.X.(*ssa.Global)
		if x.Op != token.MUL || !isG || g.Pkg == nil || g.Object() == nil || g.Object().Exported() {
			return nil
		}
		init := g.Pkg.Func("init")
		if init == nil {
			return nil
		}
		// the only store to the variable in its package is the one of its initialiser
		var st *ssa.Store
		for _, mem := range g.Pkg.Members {
			mf, isF := mem.(*ssa.Function)
			if !isF {
				continue
			}
			fns := append([]*ssa.Function{mf}, mf.AnonFuncs...)
			for _, f := range fns {
				for _, b := range f.Blocks {
					for _, ins := range b.Instrs {
						if s2, isSt := ins.(*ssa.Store); isSt && s2.Addr == ssa.Value(g) {
							if st != nil || f != init {
								return nil
							}
							st = s2
						}
					}
				}
			}
		}
		if st == nil {
			return nil
		}
		sl, isSl := st.Val.(*ssa.Slice)
		if !isSl || sl.Low != nil || sl.High != nil {
			return nil
		}
		arr, _ = sl.X.(*ssa.Alloc)
		if arr == nil || !literalArray(arr, sl) {
			return nil
		}
		global = true
		fn = init
	default:
		return nil
	}
	var found *ssa.Store
	n := 0
	for _, b := range fn.Blocks {
		for _, ins := range b.Instrs {
			st, isSt := ins.(*ssa.Store)
			if !isSt {
				continue
			}
			var eia *ssa.IndexAddr
			if field >= 0 {
				fa, isFA := st.Addr.(*ssa.FieldAddr)
				if !isFA || fa.Field != field {
					continue
				}
				eia, _ = fa.X.(*ssa.IndexAddr)
			} else {
				eia, _ = st.Addr.(*ssa.IndexAddr)
			}
			if eia == nil || eia.X != ssa.Value(arr) {
				continue
			}
			ec, isC := eia.Index.(*ssa.Const)
			if !isC || ec.Value == nil {
				return nil
			}
			if ek, _ := constant.Int64Val(ec.Value); ek != k {
				continue
			}
			n++
			found = st
		}
	}
	if n != 1 {
		return nil
	}
	if global {
		switch v := found.Val.(type) {
		case *ssa.Const:
			return &Term{Op: "const", Name: ConstString(v), Val: v}
		case *ssa.Function:
			return &Term{Op: "fn", Name: FuncName(v), Val: v}
		}
		return nil
	}
	return tb.Of(found.Val)
}

// GlobalLiteralLen: the length of the slice literal an unexported package variable is initialised with, provided the
// initialiser's store is the only store to the variable in its package (0 otherwise).
func GlobalLiteralLen(g *ssa.Global) int64 {
	if g == nil || g.Pkg == nil || g.Object() == nil || g.Object().Exported() {
		return 0
	}
	init := g.Pkg.Func("init")
	if init == nil {
		return 0
	}
	var st *ssa.Store
	for _, mem := range g.Pkg.Members {
		mf, isF := mem.(*ssa.Function)
		if !isF {
			continue
		}
		for _, f := range append([]*ssa.Function{mf}, mf.AnonFuncs...) {
			for _, b := range f.Blocks {
				for _, ins := range b.Instrs {
					if s2, isSt := ins.(*ssa.Store); isSt && s2.Addr == ssa.Value(g) {
						if st != nil || f != init {
							return 0
						}
						st = s2
					}
				}
			}
		}
	}
	if st == nil {
		return 0
	}
	sl, isSl := st.Val.(*ssa.Slice)
	if !isSl || sl.Low != nil || sl.High != nil {
		return 0
	}
	arr, _ := sl.X.(*ssa.Alloc)
	if arr == nil || !literalArray(arr, sl) {
		return 0
	}
	if at, ok := arr.Type().(*types.Pointer).Elem().Underlying().(*types.Array); ok {
		return at.Len()
	}
	return 0
}

// literalArray: the backing array of a slice literal — it is only indexed (to fill it) and sliced once (sl), and the
// slice is only indexed, measured or ranged over.
func literalArray(arr *ssa.Alloc, sl *ssa.Slice) bool {
	if arr.Referrers() == nil {
		return false
	}
	for _, r := range *arr.Referrers() {
		switch x := r.(type) {
		case *ssa.IndexAddr, *ssa.DebugRef:
		case *ssa.Slice:
			if x != sl {
				return false
			}
		default:
			return false
		}
	}
	if sl.Referrers() == nil {
		return true
	}
	for _, r := range *sl.Referrers() {
		switch x := r.(type) {
		case *ssa.IndexAddr, *ssa.Range, *ssa.DebugRef:
		case *ssa.Store:
			// stored into the package variable it initialises (or a local that holds it)
			if x.Val != ssa.Value(sl) {
				return false
			}
		case *ssa.Call:
			if b, isB := x.Common().Value.(*ssa.Builtin); !isB || (b.Name() != "len" && b.Name() != "cap") {
				return false
			}
		default:
			return false
		}
	}
	return true
}

// mergedField: the values field f of local struct al can hold when al is only ever assigned as a whole — from the zero
// struct, from other such locals, or from struct literals whose field is stored once. All non-zero values must agree
// (*only); anything else clears *ok.
func (tb *TermBuilder) mergedField(al *ssa.Alloc, f int, seen map[*ssa.Alloc]bool, only **Term, ok *bool) {
	if seen[al] || !*ok {
		return
	}
	seen[al] = true
	if !localOnly(al) {
		if dbgMerge {
			println("mergedField: not local", al.Name(), al.Comment)
			for _, r := range *al.Referrers() {
				println("   ref", r.String())
			}
		}
		*ok = false
		return
	}
	// a literal: the field is stored directly, once, and the struct is never assigned as a whole
	nField := 0
	var fst *ssa.Store
	for _, blk := range tb.Fn.Blocks {
		for _, ins := range blk.Instrs {
			st, isSt := ins.(*ssa.Store)
			if !isSt {
				continue
			}
			if fa, isFA := st.Addr.(*ssa.FieldAddr); isFA && fa.X == ssa.Value(al) && fa.Field == f {
				nField++
				fst = st
			}
		}
	}
	whole := tb.stores[al]
	switch {
	case nField == 1 && allZeroStores(whole):
		// a literal built in place (the field is stored once); whole-struct assignments, if any, only reset it to zero
		t := tb.Of(fst.Val)
		if *only != nil && (*only).String() != t.String() {
			*ok = false
			return
		}
		*only = t
		return
	case nField > 0:
		*ok = false
		return
	}
	var val func(v ssa.Value, depth int)
	val = func(v ssa.Value, depth int) {
		if !*ok || depth > 6 {
			*ok = false
			return
		}
		switch x := v.(type) {
		case *ssa.Const:
			if x.Value != nil {
				*ok = false
			}
		case *ssa.Phi:
			for _, e := range x.Edges {
				val(e, depth+1)
			}
		case *ssa.UnOp:
			src, isAl := x.X.(*ssa.Alloc)
			if x.Op != token.MUL || !isAl {
				*ok = false
				return
			}
			tb.mergedField(src, f, seen, only, ok)
		default:
			*ok = false
		}
	}
	for _, st := range whole {
		val(st.Val, 0)
	}
}

var dbgMerge = false

func allZeroStores(sts []*ssa.Store) bool {
	for _, st := range sts {
		if c, ok := st.Val.(*ssa.Const); !ok || c.Value != nil {
			return false
		}
	}
	return true
}

// fieldOf names field Field of the local struct X.
type fieldOf struct {
	X     *ssa.Alloc
	Field int
}

// loadField: the term of the single value stored into the field of a local struct that is never stored as a whole
// (nil when that does not hold).
func (tb *TermBuilder) loadField(f *fieldOf, before ssa.Instruction) *Term {
	return tb.loadFieldDepth(f, before, 0)
}

func (tb *TermBuilder) loadFieldDepth(f *fieldOf, before ssa.Instruction, depth int) *Term {
	if !localOnly(f.X) || depth > 4 {
		return nil
	}
	if whole := tb.stores[f.X]; len(whole) == 1 {
		// itself a copy of another local struct (x := y; z := x): follow the chain, provided no field of it is
		// stored separately and the copy happens before the read
		ld, isLd := whole[0].Val.(*ssa.UnOp)
		if !isLd || ld.Op != token.MUL || !precedes(whole[0], before) {
			return nil
		}
		src, isAl := tb.Strip(ld.X).(*ssa.Alloc)
		if !isAl || src == f.X {
			return nil
		}
		for _, blk := range tb.Fn.Blocks {
			for _, ins := range blk.Instrs {
				if st, ok := ins.(*ssa.Store); ok {
					if fa, ok := st.Addr.(*ssa.FieldAddr); ok && mayBe(fa.X, f.X, 0) {
						return nil
					}
				}
			}
		}
		return tb.loadFieldDepth(&fieldOf{X: src, Field: f.Field}, ld, depth+1)
	}
	if len(tb.stores[f.X]) != 0 {
		return nil
	}
	var only *ssa.Store
	n := 0
	for _, blk := range tb.Fn.Blocks {
		for _, ins := range blk.Instrs {
			st, ok := ins.(*ssa.Store)
			if !ok {
				continue
			}
			fa, ok := st.Addr.(*ssa.FieldAddr)
			if !ok || fa.Field != f.Field || !mayBe(fa.X, f.X, 0) {
				continue
			}
			n++
			only = st
		}
	}
	if n != 1 || dependsOnField(only.Val, f.X, f.Field, 0) || !precedes(only, before) {
		return nil
	}
	return tb.Of(only.Val)
}

// mayBe: v is al, or a phi one of whose (transitive) operands is al.
func mayBe(v ssa.Value, al *ssa.Alloc, depth int) bool {
	if v == ssa.Value(al) {
		return true
	}
	if p, ok := v.(*ssa.Phi); ok && depth < 6 {
		for _, e := range p.Edges {
			if mayBe(e, al, depth+1) {
				return true
			}
		}
	}
	return false
}

// Strip follows phis that are known to equal one operand at all their uses.
func (tb *TermBuilder) Strip(v ssa.Value) ssa.Value {
	for i := 0; i < 8 && tb.PhiResolve != nil; i++ {
		p, ok := v.(*ssa.Phi)
		if !ok {
			break
		}
		rv := tb.PhiResolve(p)
		if rv == nil {
			break
		}
		v = rv
	}
	return v
}

// capturedOnce: a captured variable that is written exactly once (in the
// enclosing function, never in a closure) is named by the value stored there,
// expressed in the enclosing function's terms (its parameters print as ^$name).
func (tb *TermBuilder) capturedOnce(fv *ssa.FreeVar) *Term {
	fn := tb.Fn
	parent := fn.Parent()
	if parent == nil {
		return nil
	}
	idx := -1
	for i, v := range fn.FreeVars {
		if v == fv {
			idx = i
		}
	}
	if idx < 0 {
		return nil
	}
	// find the binding in the parent
	var binding ssa.Value
	for _, b := range parent.Blocks {
		for _, ins := range b.Instrs {
			if mc, ok := ins.(*ssa.MakeClosure); ok && mc.Fn == ssa.Value(fn) && idx < len(mc.Bindings) {
				binding = mc.Bindings[idx]
			}
		}
	}
	al, ok := binding.(*ssa.Alloc)
	if !ok {
		return nil
	}
	// stores in the parent
	var stores []*ssa.Store
	if refs := al.Referrers(); refs != nil {
		for _, r := range *refs {
			if st, ok := r.(*ssa.Store); ok && st.Addr == ssa.Value(al) {
				stores = append(stores, st)
			}
		}
	}
	if len(stores) != 1 {
		return nil
	}
	// no closure of the parent writes it
	for _, b := range parent.Blocks {
		for _, ins := range b.Instrs {
			mc, ok := ins.(*ssa.MakeClosure)
			if !ok {
				continue
			}
			g := mc.Fn.(*ssa.Function)
			for j, bv := range mc.Bindings {
				if bv != ssa.Value(al) || j >= len(g.FreeVars) {
					continue
				}
				if writesThrough(g, g.FreeVars[j]) {
					return nil
				}
			}
		}
	}
	pt := NewTermBuilder(tb.P, parent).Of(stores[0].Val)
	return outerize(pt)
}

func writesThrough(g *ssa.Function, fv *ssa.FreeVar) bool {
	refs := fv.Referrers()
	if refs == nil {
		return false
	}
	for _, r := range *refs {
		switch x := r.(type) {
		case *ssa.Store:
			if x.Addr == ssa.Value(fv) {
				return true
			}
		case *ssa.UnOp:
		case *ssa.DebugRef:
		case *ssa.MakeClosure:
			// passed on to a nested closure: check it too
			h := x.Fn.(*ssa.Function)
			for j, bv := range x.Bindings {
				if bv == ssa.Value(fv) && j < len(h.FreeVars) && writesThrough(h, h.FreeVars[j]) {
					return true
				}
			}
		default:
			return true
		}
	}
	return false
}

func outerize(t *Term) *Term {
	if t == nil {
		return nil
	}
	c := *t
	c.str = ""
	if c.Op == "param" {
		c.Op = "oparam"
	}
	if len(t.Args) > 0 {
		c.Args = make([]*Term, len(t.Args))
		for i, a := range t.Args {
			c.Args[i] = outerize(a)
		}
	}
	return &c
}

// escapes reports whether an alloc is used for anything but loads/stores to
// itself (so that a single store is the only writer).
func (tb *TermBuilder) escapes(a *ssa.Alloc) bool {
	refs := a.Referrers()
	if refs == nil {
		return true
	}
	for _, r := range *refs {
		switch x := r.(type) {
		case *ssa.Store:
			if x.Addr != a {
				return true
			}
		case *ssa.UnOp:
			if x.Op != token.MUL {
				return true
			}
		case *ssa.DebugRef:
		case *ssa.MakeClosure:
			// captured by a closure that never writes it: still a single-writer local
			g := x.Fn.(*ssa.Function)
			for j, bv := range x.Bindings {
				if bv == ssa.Value(a) && j < len(g.FreeVars) && writesThrough(g, g.FreeVars[j]) {
					return true
				}
			}
		case *ssa.FieldAddr:
			// reading fields of the local is fine; writing through them is not
			if frefs := x.Referrers(); frefs != nil {
				for _, fr := range *frefs {
					switch y := fr.(type) {
					case *ssa.UnOp:
						if y.Op != token.MUL {
							return true
						}
					case *ssa.DebugRef:
					default:
						return true
					}
				}
			}
		default:
			return true
		}
	}
	return false
}

func (tb *TermBuilder) callTerm(c *ssa.CallCommon, v ssa.Value) *Term {
	key, fn, obj := tb.P.CalleeKey(c)
	// a call through a function value that is known to be one particular function (read from a table of constants):
	// the call of that function; a parameterless wrapper `func() T { return g() }` stands for g()
	if key == "dyn" && !c.IsInvoke() {
		if ft := tb.Of(c.Value); ft.Op == "fn" {
			if target, ok := ft.Val.(*ssa.Function); ok && target.Signature.Recv() == nil {
				// a method expression (`T.Method`, `Iface.Method`): the thunk stands for the method call on its first argument
				if strings.HasSuffix(target.Name(), "$thunk") && len(target.Blocks) == 1 && len(c.Args) == len(target.Params) {
					var inner *ssa.Call
					n := 0
					for _, ins := range target.Blocks[0].Instrs {
						if ic, isCall := ins.(*ssa.Call); isCall {
							inner = ic
							n++
						}
					}
					if n == 1 && (inner.Call.IsInvoke() || inner.Call.StaticCallee() != nil) {
						ikey, ifn, iobj := tb.P.CalleeKey(&inner.Call)
						var args []*Term
						for _, a := range c.Args {
							args = append(args, tb.Of(a))
						}
						return &Term{Op: "call", Name: ikey, Args: args, Callee: ifn, Obj: iobj, Val: v}
					}
				}
				for depth := 0; depth < 3; depth++ {
					if len(target.Params) != 0 || len(target.Blocks) != 1 || !tb.P.IsSubject(target) {
						break
					}
					ret, isRet := target.Blocks[0].Instrs[len(target.Blocks[0].Instrs)-1].(*ssa.Return)
					if !isRet || len(ret.Results) != 1 {
						break
					}
					rv := ret.Results[0]
					nConv := 0
					for {
						if mi, isMI := rv.(*ssa.MakeInterface); isMI {
							rv = mi.X
							nConv++
							continue
						}
						if ci, isCI := rv.(*ssa.ChangeInterface); isCI {
							rv = ci.X
							nConv++
							continue
						}
						break
					}
					inner, isCall := rv.(*ssa.Call)
					if !isCall || len(inner.Call.Args) != 0 || inner.Call.StaticCallee() == nil || len(target.Blocks[0].Instrs) != 2+nConv {
						break
					}
					target = inner.Call.StaticCallee()
				}
				var args []*Term
				for _, a := range c.Args {
					args = append(args, tb.Of(a))
				}
				return &Term{Op: "call", Name: FuncName(target), Args: args, Callee: target, Obj: target.Object(), Val: v}
			}
		}
	}
	var args []*Term
	if c.IsInvoke() {
		args = append(args, tb.Of(c.Value))
	}
	for _, a := range c.Args {
		args = append(args, tb.Of(a))
	}
	if b, ok := c.Value.(*ssa.Builtin); ok {
		switch b.Name() {
		case "len", "cap":
			return &Term{Op: b.Name(), Args: args[:1]}
		}
	}
	if key == "dyn" {
		// calls through a function value whose target is unknown are not one value: every call site is its own term
		key = "dyn#" + strconv.Itoa(dynOrdinal(v))
	}
	return &Term{Op: "call", Name: key, Args: args, Callee: fn, Obj: obj, Val: v}
}

var dynOrdMu sync.Mutex
var dynOrd = map[*ssa.Function]map[ssa.Value]int{}

// dynOrdinal: the position of a dynamic call among the dynamic calls of its function (block and instruction order).
func dynOrdinal(v ssa.Value) int {
	c, ok := v.(*ssa.Call)
	if !ok || c.Parent() == nil {
		return 0
	}
	dynOrdMu.Lock()
	defer dynOrdMu.Unlock()
	fn := c.Parent()
	m, has := dynOrd[fn]
	if !has {
		m = map[ssa.Value]int{}
		n := 0
		for _, b := range fn.Blocks {
			for _, ins := range b.Instrs {
				if cc, isCall := ins.(*ssa.Call); isCall && !cc.Call.IsInvoke() && cc.Call.StaticCallee() == nil {
					if _, isB := cc.Call.Value.(*ssa.Builtin); !isB {
						n++
						m[cc] = n
					}
				}
			}
		}
		dynOrd[fn] = m
	}
	return m[v]
}

// CallArgs returns the argument values of a call in the same order as the
// callee's Params (receiver first); for invoke calls the receiver is c.Value.
func CallArgs(c *ssa.CallCommon) []ssa.Value {
	var out []ssa.Value
	if c.IsInvoke() {
		out = append(out, c.Value)
	}
	return append(out, c.Args...)
}

// Stable renders the term without SSA register names or allocation ordinals,
// so that it can key audited entries and known findings across unrelated edits.
func (t *Term) Stable() string {
	if t == nil {
		return "<nil>"
	}
	switch t.Op {
	case "phi":
		return "φ"
	case "range":
		return "ρ"
	case "unk":
		return "?"
	case "new":
		n := t.Name
		if i := strings.Index(n, "#"); i >= 0 {
			n = n[:i]
		}
		return "new:" + n
	case "param":
		return "$" + t.Name
	case "fv":
		return "^" + t.Name
	case "oparam":
		return "^$" + t.Name
	case "const", "global", "fn":
		return t.Name
	case "field":
		return t.Args[0].Stable() + "." + t.Name
	case "call":
		as := make([]string, len(t.Args))
		for i, a := range t.Args {
			as[i] = a.Stable()
		}
		name := t.Name
		if strings.HasPrefix(name, "dyn#") {
			name = "dyn"
		}
		return name + "(" + strings.Join(as, ", ") + ")"
	case "res":
		if t.Idx == 0 {
			return t.Args[0].Stable()
		}
		return fmt.Sprintf("%s#%d", t.Args[0].Stable(), t.Idx)
	case "err":
		return "err(" + t.Args[0].Stable() + ")"
	case "bin":
		return "(" + t.Args[0].Stable() + " " + t.Name + " " + t.Args[1].Stable() + ")"
	case "un":
		return t.Name + t.Args[0].Stable()
	case "len", "cap":
		return t.Op + "(" + t.Args[0].Stable() + ")"
	case "idx", "lookup":
		return t.Args[0].Stable() + "[" + t.Args[1].Stable() + "]"
	case "slice":
		lo, hi := "", ""
		if len(t.Args) > 1 && t.Args[1] != nil {
			lo = t.Args[1].Stable()
		}
		if len(t.Args) > 2 && t.Args[2] != nil {
			hi = t.Args[2].Stable()
		}
		return t.Args[0].Stable() + "[" + lo + ":" + hi + "]"
	case "typeassert":
		return t.Args[0].Stable() + ".(" + t.Name + ")"
	case "result":
		return fmt.Sprintf("<result%d>", t.Idx)
	}
	return t.Op
}

// dependsOnField: does value v (transitively, through operands) load field
// `field` of alloc al?
func dependsOnField(v ssa.Value, al *ssa.Alloc, field int, depth int) bool {
	if depth > 8 || v == nil {
		return false
	}
	if u, ok := v.(*ssa.UnOp); ok {
		if fa, ok := u.X.(*ssa.FieldAddr); ok && fa.X == ssa.Value(al) && fa.Field == field {
			return true
		}
	}
	ins, ok := v.(ssa.Instruction)
	if !ok {
		return false
	}
	for _, op := range ins.Operands(nil) {
		if op != nil && *op != nil && dependsOnField(*op, al, field, depth+1) {
			return true
		}
	}
	return false
}
