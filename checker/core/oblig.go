package core

import (
	"encoding/json"
	"fmt"
	"os"
	"path/filepath"
	"sort"
	"strings"
	"time"
)

// Status of an obligation.
type Status string

const (
	Discharged Status = "discharged"
	Violated   Status = "violated"
	Undecided  Status = "undecided"
	Known      Status = "known-finding"
)

// Obligation is the unit of work and of reporting.
type Obligation struct {
	ID        string `json:"id"`        // <property>.<clause>.<instance>, built from rule + construct, never from line numbers
	Rule      string `json:"rule"`      // engine + parameters
	Construct string `json:"construct"` // the program construct it is about
	Status    Status `json:"status"`
	Where     string `json:"where"`  // file:line (+ entry/exit for path rules)
	Why       string `json:"why"`    // which input breaks the property if this fails
	Detail    string `json:"detail"` // what was found
	Config    string `json:"config,omitempty"`
}

// Report collects the obligations of one property run.
type Report struct {
	Property    string
	Tier        string
	Seed        int
	Start       time.Time
	Obligations []*Obligation
	Counts      map[string]int
	Lists       map[string][]string
	Explanation string
	Assumptions []string
	Trusted     []string
	Configs     []string
	cfg         string
}

// NewReport starts a report.
func NewReport(prop, tier string, seed int) *Report {
	return &Report{Property: prop, Tier: tier, Seed: seed, Start: time.Now(), Counts: map[string]int{}, Lists: map[string][]string{}}
}

// SetConfig labels subsequently added obligations with a build configuration.
func (r *Report) SetConfig(name string) {
	r.cfg = name
	r.Configs = append(r.Configs, name)
}

// Add records an obligation.
func (r *Report) Add(o *Obligation) *Obligation {
	o.Config = r.cfg
	r.Obligations = append(r.Obligations, o)
	return o
}

// Ok records a discharged obligation.
func (r *Report) Ok(id, rule, construct, where, why, detail string) {
	r.Add(&Obligation{ID: id, Rule: rule, Construct: construct, Status: Discharged, Where: where, Why: why, Detail: detail})
}

// Bad records a violated obligation.
func (r *Report) Bad(id, rule, construct, where, why, detail string) {
	r.Add(&Obligation{ID: id, Rule: rule, Construct: construct, Status: Violated, Where: where, Why: why, Detail: detail})
}

// Unk records an undecided obligation (fails the check).
func (r *Report) Unk(id, rule, construct, where, why, detail string) {
	r.Add(&Obligation{ID: id, Rule: rule, Construct: construct, Status: Undecided, Where: where, Why: why, Detail: detail})
}

// Check records discharged or violated depending on ok.
func (r *Report) Check(ok bool, id, rule, construct, where, why, detailOK, detailBad string) bool {
	if ok {
		r.Ok(id, rule, construct, where, why, detailOK)
	} else {
		r.Bad(id, rule, construct, where, why, detailBad)
	}
	return ok
}

// Count adds to a measured counter shown in the evidence.
func (r *Report) Count(name string, n int) { r.Counts[name] += n }

// SetCount sets a counter.
func (r *Report) SetCount(name string, n int) { r.Counts[name] = n }

// List appends to a named list shown in the evidence.
func (r *Report) List(name string, items ...string) {
	r.Lists[name] = append(r.Lists[name], items...)
}

// Floor fails (undecided) if fewer than min instances of a rule were matched.
func (r *Report) Floor(id, rule string, got, min int, what string) {
	if got < min {
		r.Unk(id, rule, what, "-", "a rule that matches fewer instances than were confirmed by reading would pass vacuously",
			fmt.Sprintf("matched %d instance(s) of %s, floor is %d", got, what, min))
	} else {
		r.Ok(id, rule, what, "-", "instance floor (anti-vacuity)", fmt.Sprintf("matched %d instance(s) of %s (floor %d)", got, what, min))
	}
}

// Finding is one entry of known_findings.json.
type Finding struct {
	Status     string `json:"status"` // known | fixed
	Property   string `json:"property"`
	Obligation string `json:"obligation"`
	Construct  string `json:"construct,omitempty"`
	Detail     string `json:"detail_contains,omitempty"`
	What       string `json:"what"`
	Commit     string `json:"commit,omitempty"`
}

// FindingsFile is the committed file.
type FindingsFile struct {
	Comment  string    `json:"comment,omitempty"`
	Findings []Finding `json:"findings"`
}

// LoadFindings reads known_findings.json (missing file = no findings).
func LoadFindings(path string) (*FindingsFile, error) {
	b, err := os.ReadFile(path)
	if err != nil {
		if os.IsNotExist(err) {
			return &FindingsFile{}, nil
		}
		return nil, err
	}
	var f FindingsFile
	if err := json.Unmarshal(b, &f); err != nil {
		return nil, fmt.Errorf("%s: %w", path, err)
	}
	return &f, nil
}

func (f *FindingsFile) match(prop string, o *Obligation) *Finding {
	for i := range f.Findings {
		k := &f.Findings[i]
		if k.Status != "known" || k.Property != prop || k.Obligation != o.ID {
			continue
		}
		if k.Construct != "" && k.Construct != o.Construct {
			continue
		}
		if k.Detail != "" && !strings.Contains(o.Detail, k.Detail) {
			continue
		}
		return k
	}
	return nil
}

// Finish applies known findings, prints the verdict lines, writes the
// evidence file and returns the process exit code.
func (r *Report) Finish(verifDir string, level string) int {
	ff, err := LoadFindings(filepath.Join(verifDir, "known_findings.json"))
	if err != nil {
		fmt.Printf("ERROR reading known findings: %v\n", err)
		ff = &FindingsFile{}
	}
	sort.SliceStable(r.Obligations, func(i, j int) bool {
		a, b := r.Obligations[i], r.Obligations[j]
		if a.Config != b.Config {
			return a.Config < b.Config
		}
		return a.ID < b.ID
	})
	var bad []*Obligation
	nd, nk := 0, 0
	seenKnown := map[string]bool{}
	for _, o := range r.Obligations {
		switch o.Status {
		case Discharged:
			nd++
		case Violated, Undecided:
			if k := ff.match(r.Property, o); k != nil && o.Status == Violated {
				o.Status = Known
				nk++
				key := o.ID + "|" + o.Construct
				if !seenKnown[key] {
					seenKnown[key] = true
					fmt.Printf("KNOWN-FINDING: property=%s %s [%s at %s] %s\n", r.Property, k.What, o.ID, o.Where, o.Detail)
				}
			} else {
				bad = append(bad, o)
			}
		}
	}
	wall := time.Since(r.Start).Seconds()
	evDir := filepath.Join(verifDir, "evidence")
	_ = os.MkdirAll(filepath.Join(evDir, "replay"), 0o755)
	replay := ""
	if len(bad) > 0 {
		replay = filepath.Join(evDir, "replay", r.Property+".json")
		b, _ := json.MarshalIndent(map[string]any{"property": r.Property, "tier": r.Tier, "violations": bad}, "", " ")
		_ = os.WriteFile(replay, b, 0o644)
		for _, o := range bad {
			cfg := ""
			if o.Config != "" {
				cfg = " config=" + o.Config
			}
			fmt.Printf("%s %s%s\n    rule: %s\n    construct: %s\n    at: %s\n    found: %s\n    matters because: %s\n",
				strings.ToUpper(string(o.Status)), o.ID, cfg, o.Rule, o.Construct, o.Where, o.Detail, o.Why)
		}
	} else {
		_ = os.Remove(filepath.Join(evDir, "replay", r.Property+".json"))
	}
	// evidence
	samples := []any{}
	max := 40
	if r.Tier == "thorough" {
		max = 400
	}
	// always include non-discharged ones first
	for _, o := range r.Obligations {
		if o.Status != Discharged {
			samples = append(samples, o)
		}
	}
	for _, o := range r.Obligations {
		if len(samples) >= max {
			break
		}
		if o.Status == Discharged {
			samples = append(samples, o)
		}
	}
	ids := map[string]bool{}
	for _, o := range r.Obligations {
		ids[o.ID+"|"+o.Construct] = true
	}
	cov := map[string]any{
		"explanation":           r.Explanation,
		"obligations":           len(r.Obligations),
		"discharged":            nd,
		"known_findings":        nk,
		"violated_or_undecided": len(bad),
		"evaluations":           len(r.Obligations),
		"distinct_nontrivial":   len(ids),
		"rule":                  "one evaluation = one obligation (rule instance on one program construct in one build configuration), recomputed from /repo's current source; distinct = distinct (obligation id, construct) pairs; every obligation is non-trivial in the sense that it names a construct whose change would flip it, and instance floors fail the run when a rule matches fewer constructs than were confirmed by reading",
		"samples":               samples,
		"checker_cmd":           strings.Join(os.Args, " "),
		"trusted_base":          r.Trusted,
		"configurations":        r.Configs,
		"counts":                r.Counts,
		"lists":                 r.Lists,
		"exhaustive":            false,
	}
	assumptions := append([]string{
		"the analysed program is what `go/packages` loads for ./... of /repo without test files; mocks (pkg/mocks, pkg/dochandler/mocks, *.gen.go) are excluded as subjects",
		"interface calls are resolved to the non-mock implementations inside the module",
	}, r.Assumptions...)
	ev := map[string]any{
		"property_id": r.Property,
		"tier":        r.Tier,
		"seed":        r.Seed,
		"level":       level,
		"coverage":    cov,
		"assumptions": assumptions,
		"wall_s":      wall,
		"violations":  len(bad),
	}
	b, _ := json.MarshalIndent(ev, "", " ")
	evPath := filepath.Join(evDir, r.Property+".json")
	if err := os.WriteFile(evPath, b, 0o644); err != nil {
		fmt.Printf("ERROR writing evidence: %v\n", err)
		return 2
	}
	fmt.Printf("%s tier=%s: %d obligations, %d discharged, %d known-finding, %d violated/undecided, %.1fs; evidence %s\n",
		r.Property, r.Tier, len(r.Obligations), nd, nk, len(bad), wall, evPath)
	if len(bad) > 0 {
		fmt.Printf("VIOLATION property=%s replay=%s\n", r.Property, replay)
		return 1
	}
	return 0
}
